// Widening-chain harness (property C05, tag `wchain`): drives the widening (and narrowing) of ONE
// shipped abstract domain (selected with -DVDOM=<id>, table in domains.hpp) along long chains
//     x_0 (seed history),   x_i = x_{i-1} ∇ y_i
// and reports for every step what the domain's own inclusion test says about it.
// With -DWSCALAR=1 the generator produces chains of the scalar wrapped_interval instead
// (request `wchain.wint`; the evaluator of every binary understands all requests).
//
// request : (wchain.run <dom> <mode> <nsteps> (seed-history <op> ...) (steps <step> ...) [(accel s e r)])
//   <dom>  ::= DOMNAME of domains.hpp; a request for another domain is answered `otherdom` (skipped)
//   <mode> ::= widen | (thr t ...) | (delay k) | (delaythr k t ...)
//              thr      : x.widening_thresholds(y, ts), ts = crab::thresholds<z_number> with add(t) for every t
//              delay k  : the first k steps use the join `|` (widening_delay of the fixpoint iterator)
//   <op>   ::= the op language of h_dom.cpp over a pool of 4 slots (see there); x_0 = slot 0 at the end
//   <step> ::= (ind <op> ...)    y_i = slot 0 after the ops, starting from slot 0 = top
//            | (body <op> ...)   y_i = slot 0 after the ops, starting from slot 0 = x_{i-1}   (F(x_{i-1}))
//            | (bodyj <op> ...)  y_i = F(x_{i-1}) | x_0                                        (loop head)
//            in every case slot 1 = x_0 and slots 2, 3 = top before the ops.
//   The steps form a cyclic pattern: step i (i = 0 .. nsteps-1) is pattern[i mod len] with the
//   index forms instantiated:  (ix a b) = a+b*i   (ixq a b) = a+b*i*i   (ixp a b c) = a+b*2^min(i,c)
//   (ixm a b m) = a+b*(i mod m)   (ixd a b m) = a+b*(i div m)   (vix k) = v((k+i) mod 5)
//   (vixd k m) = v((k + i div m) mod 5).
//   With (accel s e r) the index forms ix, ixq (one factor), ixp, ixd use the effective index
//   I(i) = i for i < s,  s*2^(r*(i-s)) for s <= i < e,  s*2^(r*(e-s)) + (i-e) afterwards, so that
//   every constant / threshold of the chain is crossed during the accelerated phase and the
//   sequence still grows during the last steps (vix, vixd, ixm always use i).
// result  : (x0 <isbot> <istop> (iv ..) (cs ..)) (ub <bits>) (lub <bits>) (st <bits>) (cov <bits>)
//           (d i <isbot> <istop> (iv ..) (cs ..)) ...
//           (fin stable|diverge k)
//   bit i of  ub : y_i <= x_i      lub : x_{i-1} <= x_i     st : x_i <= x_{i-1} (stationary step)
//             cov : y_i <= x_{i-1} (the test on which the fixpoint iterator stops)
//   d i ..  : dump of x_i (first / last steps, every step that was not stationary, every 32nd)
//   k       : first index from which every step is stationary; `diverge` when k > nsteps-20
//
// request : (wchain.narrow <dom> <mode> <nsteps> (seed-history <op> ...) (steps <step> ...))
//   <mode> ::= narrow | meet1      (meet1: first step uses `&` as the iterator does)
//   z_0 = x_0,  y_i = F(z_{i-1}) & z_{i-1}  (a decreasing pair by construction),  z_i = z_{i-1} && y_i
// result  : (x0 ...) (dec <bits>) (lb <bits>) (below <bits>) (d i ...) for every i
//   dec : y_i <= z_{i-1}    lb : y_i <= z_i    below : z_i <= z_{i-1}
//
// request : (wchain.wint <width> <mode> <nsteps> <X0> (ys <Y> ...))        wrapped_interval scalar
//   <X>  ::= bot | top | (w s e)      as in h_wint.cpp (raw start / end, reduced modulo 2^w)
//   <Y>  ::= <X> with index forms | (grow a b) | (shift k) | (next k) | (add <X>) | (mul k)
//            grow: (s-a, e+b) of x_{i-1}; shift: (s+k, e+k); next: (e, e+k); add: x_{i-1} + X;
//            mul: x_{i-1} * [k,k] | x_{i-1}     (x_{i-1} top/bottom: y = x_{i-1})
// result  : (ub ..) (lub ..) (st ..) (cov ..) (s i <Y_i> <X_i>) for every step, (fin stable|diverge k)
#include "domains.hpp"

#include <crab/domains/wrapped_interval.hpp>
#include <crab/fixpoint/thresholds.hpp>
#include <crab/numbers/wrapint.hpp>

namespace {

const unsigned NV = 5; // integer variables v0..v4
const unsigned NP = 4; // pool slots

std::vector<z_var> *VARS = nullptr;

z_var var(unsigned i) { return (*VARS)[i]; }
unsigned vidx(const Sx &x) { return std::stoul(x.a.substr(1)); }

// ------------------------------------------------------------------ copied from h_dom.cpp
z_lin_exp_t parse_lin(const Sx &x) {
  z_lin_exp_t e(z_number(x[1].a));
  for (size_t i = 2; i < x.size(); i++) e = e + z_lin_exp_t(z_number(x[i][0].a), var(vidx(x[i][1])));
  return e;
}

z_lin_cst_t parse_cst(const Sx &x) {
  z_lin_exp_t e = parse_lin(x[1]);
  const std::string &k = x[0].a;
  if (k == "le") return z_lin_cst_t(e, z_lin_cst_t::INEQUALITY);
  if (k == "lt") return z_lin_cst_t(e, z_lin_cst_t::STRICT_INEQUALITY);
  if (k == "eq") return z_lin_cst_t(e, z_lin_cst_t::EQUALITY);
  return z_lin_cst_t(e, z_lin_cst_t::DISEQUATION);
}

std::string lin_str(const z_lin_exp_t &e) {
  std::ostringstream o;
  o << "(lin " << zs(e.constant());
  std::vector<std::pair<unsigned, std::string>> ts;
  bool foreign = false;
  for (auto it = e.begin(); it != e.end(); ++it) {
    std::string nm = it->second.name().str();
    if (nm.size() < 2 || nm[0] != 'v' || !isdigit(nm[1])) { foreign = true; continue; }
    ts.push_back({(unsigned)std::stoul(nm.substr(1)), zs(it->first)});
  }
  std::sort(ts.begin(), ts.end());
  for (auto &t : ts) o << " (" << t.second << " v" << t.first << ")";
  o << ")";
  return foreign ? std::string("foreign") : o.str();
}

std::string cst_str(const z_lin_cst_t &c) {
  std::string l = lin_str(c.expression());
  if (l == "foreign") return "";
  const char *k = c.is_inequality() ? "le" : c.is_strict_inequality() ? "lt" : c.is_equality() ? "eq" : "ne";
  return std::string("(") + k + " " + l + ")";
}

std::string dump(Dom &d) {
  std::ostringstream o;
  bool b = d.is_bottom();
  o << (b ? 1 : 0) << " " << (d.is_top() ? 1 : 0) << " (iv";
  for (unsigned i = 0; i < NV; i++) o << " " << ivs(d.at(var(i)));
  o << ") (cs";
  auto sys = d.to_linear_constraint_system();
  for (auto it = sys.begin(); it != sys.end(); ++it) {
    std::string s = cst_str(*it);
    if (!s.empty()) o << " " << s;
  }
  o << ")";
  return o.str();
}

crab::domains::arith_operation_t aop(const std::string &s) {
  if (s == "add") return OP_ADDITION;
  if (s == "sub") return OP_SUBTRACTION;
  if (s == "mul") return OP_MULTIPLICATION;
  if (s == "sdiv") return OP_SDIV;
  if (s == "udiv") return OP_UDIV;
  if (s == "srem") return OP_SREM;
  return OP_UREM;
}
crab::domains::bitwise_operation_t bop(const std::string &s) {
  if (s == "and") return OP_AND;
  if (s == "or") return OP_OR;
  if (s == "xor") return OP_XOR;
  if (s == "shl") return OP_SHL;
  if (s == "lshr") return OP_LSHR;
  return OP_ASHR;
}

// one operation of the h_dom op language on a pool
void apply_op(std::vector<Dom> &pool, const Sx &op, size_t oi) {
  const std::string &k = op[0].a;
  unsigned d = std::stoul(op[1].a);
  if (k == "top") pool[d].set_to_top();
  else if (k == "bot") pool[d].set_to_bottom();
  else if (k == "copy") {
    Dom c(pool[std::stoul(op[2].a)]);
    if (oi % 2) pool[d] = c;
    else { Dom m(std::move(c)); pool[d] = std::move(m); }
  }
  else if (k == "assign") pool[d].assign(var(vidx(op[2])), parse_lin(op[3]));
  else if (k == "arith") {
    if (op[5].a[0] == 'v') pool[d].apply(aop(op[2].a), var(vidx(op[3])), var(vidx(op[4])), var(vidx(op[5])));
    else pool[d].apply(aop(op[2].a), var(vidx(op[3])), var(vidx(op[4])), z_number(op[5].a));
  } else if (k == "bitw") {
    if (op[5].a[0] == 'v') pool[d].apply(bop(op[2].a), var(vidx(op[3])), var(vidx(op[4])), var(vidx(op[5])));
    else pool[d].apply(bop(op[2].a), var(vidx(op[3])), var(vidx(op[4])), z_number(op[5].a));
  } else if (k == "assume") {
    linear_constraint_system<z_number, varname_t> sys;
    for (size_t i = 2; i < op.size(); i++) sys += parse_cst(op[i]);
    pool[d] += sys;
  } else if (k == "forget") {
    if (op.size() == 3) pool[d] -= var(vidx(op[2]));
    else { std::vector<z_var> vs; for (size_t i = 2; i < op.size(); i++) vs.push_back(var(vidx(op[i]))); pool[d].forget(vs); }
  } else if (k == "project") {
    std::vector<z_var> vs; for (size_t i = 2; i < op.size(); i++) vs.push_back(var(vidx(op[i]))); pool[d].project(vs);
  } else if (k == "rename") {
    std::vector<z_var> f, t;
    for (size_t i = 0; i < op[2].size(); i++) f.push_back(var(vidx(op[2][i])));
    for (size_t i = 0; i < op[3].size(); i++) t.push_back(var(vidx(op[3][i])));
    pool[d].rename(f, t);
  } else if (k == "expand") pool[d].expand(var(vidx(op[2])), var(vidx(op[3])));
  else if (k == "join") { Dom r = pool[std::stoul(op[2].a)] | pool[std::stoul(op[3].a)]; pool[d] = r; }
  else if (k == "meet") { Dom r = pool[std::stoul(op[2].a)] & pool[std::stoul(op[3].a)]; pool[d] = r; }
  else if (k == "widen") { Dom r = pool[std::stoul(op[2].a)] || pool[std::stoul(op[3].a)]; pool[d] = r; }
  else if (k == "narrow") { Dom r = pool[std::stoul(op[2].a)] && pool[std::stoul(op[3].a)]; pool[d] = r; }
  else if (k == "joineq") pool[d] |= pool[std::stoul(op[2].a)];
  else if (k == "meeteq") pool[d] &= pool[std::stoul(op[2].a)];
  else if (k == "normalize") pool[d].normalize();
  else if (k == "minimize") pool[d].minimize();
  else if (k == "select") pool[d].select(var(vidx(op[2])), parse_cst(op[3]), parse_lin(op[4]), parse_lin(op[5]));
  else if (k == "query") { (void)pool[d][var(0)]; }
}

// ------------------------------------------------------------------ index forms
Sx atom(const std::string &s) { Sx x; x.a = s; return x; }

// the effective index of step i under (accel s e r): i below s, s*2^(r*(i-s)) from s to e, then +1 per step
struct Accel { unsigned s = 1u << 30, e = 1u << 30, r = 0; };
z_number eff_index(const Accel &a, unsigned i) {
  if (i < a.s) return z_number((int64_t)i);
  if (i < a.e) return z_number((int64_t)a.s) * zpow2(a.r * (i - a.s));
  return z_number((int64_t)a.s) * zpow2(a.r * (a.e - a.s)) + z_number((int64_t)(i - a.e));
}

Sx inst(const Sx &x, unsigned i, const z_number &I) {
  if (x.is_atom) return x;
  if (x.size() >= 2 && x[0].is_atom) {
    const std::string &h = x[0].a;
    if (h == "ix" && x.size() == 3) return atom(zs(z_number(x[1].a) + z_number(x[2].a) * I));
    if (h == "ixq" && x.size() == 3) return atom(zs(z_number(x[1].a) + z_number(x[2].a) * I * z_number((int64_t)i)));
    if (h == "ixp" && x.size() == 4) {
      unsigned c = std::stoul(x[3].a);
      unsigned ex = (I < z_number((int64_t)c)) ? (unsigned)(int64_t)I : c;
      return atom(zs(z_number(x[1].a) + z_number(x[2].a) * zpow2(ex)));
    }
    if (h == "ixm" && x.size() == 4) {
      unsigned m = std::max(1ul, std::stoul(x[3].a));
      return atom(zs(z_number(x[1].a) + z_number(x[2].a) * z_number((int64_t)(i % m))));
    }
    if (h == "ixd" && x.size() == 4) {
      unsigned m = std::max(1ul, std::stoul(x[3].a));
      return atom(zs(z_number(x[1].a) + z_number(x[2].a) * (I / z_number((int64_t)m))));
    }
    if (h == "vix" && x.size() == 2) return atom("v" + std::to_string((std::stoul(x[1].a) + i) % NV));
    if (h == "vixd" && x.size() == 3) {
      unsigned m = std::max(1ul, std::stoul(x[2].a));
      return atom("v" + std::to_string((std::stoul(x[1].a) + i / m) % NV));
    }
  }
  Sx r; r.is_atom = false;
  for (size_t j = 0; j < x.size(); j++) r.l.push_back(inst(x[j], i, I));
  return r;
}

Accel parse_accel(const Sx &q, size_t k) {
  Accel a;
  if (q.size() > k && !q[k].is_atom && q[k].size() == 4 && q[k][0].a == "accel") {
    a.s = std::stoul(q[k][1].a); a.e = std::stoul(q[k][2].a); a.r = std::stoul(q[k][3].a);
    if (a.e < a.s) a.e = a.s;
  }
  return a;
}

std::string bits(const std::vector<bool> &b) {
  std::string s;
  for (bool x : b) s += x ? '1' : '0';
  return s.empty() ? "-" : s;
}

struct Env {
  variable_factory_t vf;
  std::vector<z_var> vars;
  Env() {
    for (unsigned i = 0; i < NV; i++) vars.push_back(z_var(vf["v" + std::to_string(i)], crab::INT_TYPE, 32));
    VARS = &vars;
  }
};

Dom run_seed(const Sx &seed) {
  std::vector<Dom> pool;
  for (unsigned i = 0; i < NP; i++) pool.push_back(vdom_mk_top());
  for (size_t oi = 1; oi < seed.size(); oi++) apply_op(pool, seed[oi], oi);
  return pool[0];
}

// the further value of one step
Dom run_step(const Sx &step, const Dom &x, const Dom &x0) {
  const std::string &kind = step[0].a;
  std::vector<Dom> pool;
  pool.push_back(kind == "ind" ? vdom_mk_top() : Dom(x));
  pool.push_back(Dom(x0));
  pool.push_back(vdom_mk_top());
  pool.push_back(vdom_mk_top());
  for (size_t oi = 1; oi < step.size(); oi++) apply_op(pool, step[oi], oi);
  if (kind == "bodyj") return pool[0] | x0;
  return pool[0];
}

std::string eval_run(const Sx &q) {
  if (q[1].a != DOMNAME) return "otherdom"; // corpus lines are shared by the binaries of all domains
  Env env;
  const Sx &mode = q[2];
  unsigned nsteps = std::stoul(q[3].a);
  unsigned delay = 0;
  bool use_thr = false;
  crab::thresholds<z_number> ts;
  if (!mode.is_atom) {
    const std::string &mk = mode[0].a;
    size_t first = 1;
    if (mk == "delay" || mk == "delaythr") { delay = std::stoul(mode[1].a); first = 2; }
    if (mk == "thr" || mk == "delaythr") {
      use_thr = true;
      for (size_t i = first; i < mode.size(); i++) ts.add(z_bound(z_number(mode[i].a)));
    }
  }
  Dom x0 = run_seed(q[4]);
  const Sx &steps = q[5];
  Accel acc = parse_accel(q, 6);
  size_t plen = steps.size() - 1;
  std::string x0s;
  { Dom c0(x0); x0s = dump(c0); }
  Dom x(x0);
  std::vector<bool> ub, lub, st, cov;
  std::ostringstream dumps;
  unsigned ndumps = 0;
  for (unsigned i = 0; i < nsteps; i++) {
    Sx step = inst(steps[1 + (i % plen)], i, eff_index(acc, i));
    Dom y = run_step(step, x, x0);
    Dom xn = (i < delay) ? (x | y) : (use_thr ? x.widening_thresholds(y, ts) : (x || y));
    bool c = y <= x;
    bool s = xn <= x;
    ub.push_back(y <= xn);
    lub.push_back(x <= xn);
    st.push_back(s);
    cov.push_back(c);
    if (i < 4 || i + 2 >= nsteps || (!s && ndumps < 48) || i % 32 == 0) {
      Dom cp(xn);
      dumps << " (d " << i << " " << dump(cp) << ")";
      if (!s) ndumps++;
    }
    x = xn;
  }
  unsigned k = nsteps;
  while (k > 0 && st[k - 1]) k--;
  std::ostringstream out;
  out << "(x0 " << x0s << ") (ub " << bits(ub) << ") (lub " << bits(lub)
      << ") (st " << bits(st) << ") (cov " << bits(cov) << ")"
      << dumps.str() << " (fin " << ((k + 20 > nsteps) ? "diverge " : "stable ") << k << ")";
  return out.str();
}

std::string eval_narrow(const Sx &q) {
  if (q[1].a != DOMNAME) return "otherdom";
  Env env;
  bool meet1 = q[2].a == "meet1";
  unsigned nsteps = std::stoul(q[3].a);
  Dom x0 = run_seed(q[4]);
  const Sx &steps = q[5];
  Accel acc = parse_accel(q, 6);
  size_t plen = steps.size() - 1;
  std::string x0s;
  { Dom c0(x0); x0s = dump(c0); }
  Dom z(x0);
  std::vector<bool> dec, lb, below;
  std::ostringstream dumps;
  for (unsigned i = 0; i < nsteps; i++) {
    Sx step = inst(steps[1 + (i % plen)], i, eff_index(acc, i));
    Dom f = run_step(step, z, x0);
    Dom y = f & z;
    Dom zn = (meet1 && i == 0) ? (z & y) : (z && y);
    dec.push_back(y <= z);
    lb.push_back(y <= zn);
    below.push_back(zn <= z);
    Dom cp(zn);
    dumps << " (d " << i << " " << dump(cp) << ")";
    z = zn;
  }
  std::ostringstream out;
  out << "(x0 " << x0s << ") (dec " << bits(dec) << ") (lb " << bits(lb) << ") (below " << bits(below) << ")" << dumps.str();
  return out.str();
}

// ------------------------------------------------------------------ wrapped_interval scalar
using crab::wrapint;
using wi_t = crab::domains::wrapped_interval<z_number>;

uint64_t maskw(unsigned w) { return w >= 64 ? ~0ULL : ((1ULL << w) - 1); }
uint64_t zmod(const std::string &s, unsigned w) {
  // reduce a (possibly negative / big) decimal modulo 2^w
  z_number m = zpow2(w);
  z_number v = z_number(s) % m;
  if (v < 0) v = v + m;
  return std::strtoull(zs(v).c_str(), nullptr, 10);
}
std::string wis(const wi_t &x) {
  if (x.is_bottom()) return "bot";
  if (x.is_top()) return "top";
  return "(" + std::to_string(x.start().get_bitwidth()) + " " + std::to_string((unsigned long long)x.start().get_uint64_t()) + " " +
         std::to_string((unsigned long long)x.end().get_uint64_t()) + ")";
}
wi_t mk_wi(unsigned w, uint64_t s, uint64_t e) { return wi_t(wrapint(s & maskw(w), w), wrapint(e & maskw(w), w)); }
wi_t parse_wi(const Sx &x, unsigned w) {
  if (x.is_atom) return x.a == "top" ? wi_t::top() : wi_t::bottom();
  return mk_wi(w, zmod(x[1].a, w), zmod(x[2].a, w));
}

wi_t wint_step(const Sx &y, const wi_t &x, unsigned w) {
  if (y.is_atom) return parse_wi(y, w);
  const std::string &h = y[0].a;
  bool triv = x.is_bottom() || x.is_top();
  if (h == "grow") { if (triv) return x; return mk_wi(w, x.start().get_uint64_t() - zmod(y[1].a, w), x.end().get_uint64_t() + zmod(y[2].a, w)); }
  if (h == "shift") { if (triv) return x; uint64_t k = zmod(y[1].a, w); return mk_wi(w, x.start().get_uint64_t() + k, x.end().get_uint64_t() + k); }
  if (h == "next") { if (triv) return x; return mk_wi(w, x.end().get_uint64_t(), x.end().get_uint64_t() + zmod(y[1].a, w)); }
  if (h == "add") { if (triv) return x; return x + parse_wi(y[1], w); }
  if (h == "mul") { if (triv) return x; uint64_t k = zmod(y[1].a, w); return (x * mk_wi(w, k, k)) | x; }
  return parse_wi(y, w);
}

std::string eval_wint(const Sx &q) {
  unsigned w = std::stoul(q[1].a);
  const Sx &mode = q[2];
  unsigned nsteps = std::stoul(q[3].a);
  unsigned delay = 0;
  bool use_thr = false;
  crab::thresholds<z_number> ts;
  if (!mode.is_atom) {
    const std::string &mk = mode[0].a;
    size_t first = 1;
    if (mk == "delay" || mk == "delaythr") { delay = std::stoul(mode[1].a); first = 2; }
    if (mk == "thr" || mk == "delaythr") {
      use_thr = true;
      for (size_t i = first; i < mode.size(); i++) ts.add(z_bound(z_number(mode[i].a)));
    }
  }
  wi_t x = parse_wi(q[4], w);
  const Sx &ys = q[5];
  Accel acc = parse_accel(q, 6);
  size_t plen = ys.size() - 1;
  std::vector<bool> ub, lub, st, cov;
  std::ostringstream steps;
  for (unsigned i = 0; i < nsteps; i++) {
    Sx yf = inst(ys[1 + (i % plen)], i, eff_index(acc, i));
    wi_t y = wint_step(yf, x, w);
    wi_t xn = (i < delay) ? (x | y) : (use_thr ? x.widening_thresholds(y, ts) : (x || y));
    bool s = xn <= x;
    ub.push_back(y <= xn);
    lub.push_back(x <= xn);
    st.push_back(s);
    cov.push_back(y <= x);
    steps << " (s " << i << " " << wis(y) << " " << wis(xn) << ")";
    x = xn;
  }
  unsigned k = nsteps;
  while (k > 0 && st[k - 1]) k--;
  std::ostringstream out;
  out << "(ub " << bits(ub) << ") (lub " << bits(lub) << ") (st " << bits(st) << ") (cov " << bits(cov) << ")"
      << steps.str() << " (fin " << ((k + 20 > nsteps) ? "diverge " : "stable ") << k << ")";
  return out.str();
}

std::string eval(const Sx &q) {
  const std::string &h = q[0].a;
  if (h == "wchain.run") return eval_run(q);
  if (h == "wchain.narrow") return eval_narrow(q);
  if (h == "wchain.wint") return eval_wint(q);
  return "unknown";
}

// ------------------------------------------------------------------ generators
// int64 DBM weights (documented unchecked arithmetic): small constants only; SafeInt64 weights raise
// CRAB_ERROR on overflow: mostly small constants.  BIG_OK is chosen per chain by the generator.
const bool INT64_DOM = (VDOM == 25 || VDOM == 26 || VDOM == 15 || VDOM == 16 || VDOM == 11 || VDOM == 12 ||
                        VDOM == 13 || VDOM == 18 || VDOM == 20);
const bool SAFE_DOM = (VDOM == 6 || VDOM == 7 || VDOM == 8);
bool BIG_OK = false;

std::string V(unsigned i) { return "v" + std::to_string(i % NV); }
std::string I(int64_t k) { return std::to_string(k); }

z_number gen_coef(Rng &r) {
  switch (r.below(8)) {
  case 0: return z_number(0);
  case 1: case 2: case 3: return z_number(1);
  case 4: case 5: return z_number(-1);
  case 6: return z_number((int64_t)r.range(-4, 4));
  default: return z_number((int64_t)r.range(-50, 50));
  }
}
std::string gen_const(Rng &r, bool big_ok) {
  switch (r.below(10)) {
  case 0: return "0";
  case 1: return "1";
  case 2: return "-1";
  case 3: case 4: case 5: case 6: return std::to_string(r.range(-10, 10));
  case 7: return std::to_string(r.range(-1000, 1000));
  case 8: return big_ok ? zs(gen_z(r)) : std::to_string(r.range(-100000, 100000));
  default: return std::to_string(r.range(-40, 40));
  }
}
// a constant that may depend on the step index
std::string gen_ixconst(Rng &r, bool big_ok) {
  int64_t a = r.range(-20, 20);
  switch (r.below(9)) {
  case 0: case 1: return "(ix " + I(a) + " " + I(r.range(-9, 9)) + ")";
  case 2: return "(ix " + I(a) + " " + I(r.coin() ? r.range(10, 1000) : -r.range(10, 1000)) + ")";
  case 3: return "(ixq " + I(a) + " " + I(r.range(-3, 3)) + ")";
  case 4: return "(ixp " + I(a) + " " + I(r.coin() ? 1 : -1) + " " + I(big_ok ? r.range(8, 80) : r.range(4, 14)) + ")";
  case 5: return "(ixm " + I(a) + " " + I(r.range(-30, 30)) + " " + I(r.range(2, 7)) + ")";
  case 6: return "(ixd " + I(a) + " " + I(r.range(-30, 30)) + " " + I(r.range(2, 7)) + ")";
  default: return gen_const(r, big_ok);
  }
}
std::string gen_var(Rng &r, bool ix) {
  if (ix && r.below(4) == 0) return r.coin() ? "(vix " + I(r.below(NV)) + ")" : "(vixd " + I(r.below(NV)) + " " + I(r.range(2, 3)) + ")";
  return V(r.below(NV));
}
std::string gen_lin(Rng &r, bool big_ok, bool ix, unsigned maxterms = 3) {
  std::string s = "(lin " + (ix ? gen_ixconst(r, big_ok) : gen_const(r, big_ok));
  unsigned k = r.below(maxterms + 1);
  std::vector<bool> used(NV, false);
  bool usedix = false;
  for (unsigned i = 0; i < k; i++) {
    std::string v = gen_var(r, ix && !usedix && i == 0);
    if (v[0] == '(') usedix = true;
    else { if (usedix) continue; unsigned vi = std::stoul(v.substr(1)); if (used[vi]) continue; used[vi] = true; }
    std::string c = zs(gen_coef(r));
    if (ix && r.below(10) == 0) c = "(ix 1 " + I(r.range(1, 3)) + ")";
    s += " (" + c + " " + v + ")";
  }
  return s + ")";
}
std::string gen_cst(Rng &r, bool big_ok, bool ix) {
  static const char *K[] = {"le", "le", "le", "lt", "eq", "ne"};
  std::string k = K[r.below(6)];
  unsigned shape = r.below(6);
  std::string c = ix ? gen_ixconst(r, big_ok) : gen_const(r, big_ok);
  if (shape <= 1) {
    std::string coef = r.coin() ? "1" : "-1";
    if (r.below(4) == 0) { z_number cc = gen_coef(r); if (!(cc == 0)) coef = zs(cc); }
    return "(" + k + " (lin " + c + " (" + coef + " " + gen_var(r, ix) + ")))";
  } else if (shape <= 3) {
    unsigned a = r.below(NV), b = r.below(NV);
    if (a == b) b = (a + 1) % NV;
    bool oct = shape == 3 && r.coin();
    return "(" + k + " (lin " + c + " (" + (oct && r.coin() ? "-1" : "1") + " " + V(a) + ") (" + (oct ? "1" : "-1") + " " + V(b) + ")))";
  }
  return "(" + k + " " + gen_lin(r, big_ok, false) + ")";
}

// v >= lo  /  v <= hi  as h_dom constraints (lo, hi may be index forms)
std::string ge(const std::string &v, const std::string &lo) { return "(le (lin " + lo + " (-1 " + v + ")))"; }
std::string le(const std::string &v, const std::string &hi_neg) { return "(le (lin " + hi_neg + " (1 " + v + ")))"; } // hi_neg = -hi

// seeding ops for one slot: bounded, non-trivial start value
void gen_seed_slot(Rng &r, std::ostringstream &o, unsigned d) {
  unsigned nv = 1 + r.below(4);
  for (unsigned j = 0; j < nv; j++) {
    unsigned v = r.below(NV);
    int64_t lo = r.range(-12, 12), hi = lo + r.range(0, 9);
    switch (r.below(4)) {
    case 0: o << " (assign " << d << " v" << v << " (lin " << lo << "))"; break;
    case 1: o << " (assume " << d << " (le (lin " << lo << " (-1 v" << v << "))))"; break;
    case 2: o << " (assume " << d << " (le (lin " << -hi << " (1 v" << v << "))))"; break;
    default: o << " (assume " << d << " (le (lin " << lo << " (-1 v" << v << "))) (le (lin " << -hi << " (1 v" << v << "))))"; break;
    }
  }
  if (r.below(3) == 0) {
    unsigned a = r.below(NV), b = (a + 1 + r.below(NV - 1)) % NV;
    o << " (assume " << d << " (le (lin " << r.range(-5, 5) << " (1 v" << a << ") (-1 v" << b << "))))";
  }
}

// a random transfer-function-like op on slot 0 (loop-body shape)
std::string gen_body_op(Rng &r, bool ix) {
  unsigned v = r.below(NV), w = r.below(NV);
  switch (r.below(16)) {
  case 0: case 1: case 2: return "(assign 0 " + V(v) + " (lin " + I(r.range(1, 5)) + " (1 " + V(v) + ")))";               // v := v + c
  case 3: return "(assign 0 " + V(v) + " (lin " + I(-r.range(1, 5)) + " (1 " + V(v) + ")))";                              // v := v - c
  case 4: return "(arith 0 mul " + V(v) + " " + V(v) + " " + I(r.range(2, 3)) + ")";                                        // v := v * k
  case 5: return "(assign 0 " + V(v) + " (lin " + I(r.range(-3, 3)) + " (2 " + V(v) + ")))";                               // v := 2v + c
  case 6: return "(assign 0 " + V(v) + " (lin 0 (1 " + V(v) + ") (1 " + V(w == v ? v + 1 : w) + ")))";                     // v := v + w
  case 7: return "(assign 0 " + V(v) + " (lin " + I(r.range(-2, 2)) + " (1 " + V(w) + ")))";                               // v := w + c
  case 8: return "(arith 0 " + std::string(r.coin() ? "sub " : "mul ") + V(v) + " " + V(v) + " " + V(w) + ")";
  case 9: return r.coin() ? "(forget 0 " + V(v) + ")" : "(assign 0 " + V(v) + " (lin " + I(r.range(-3, 3)) + "))";        // havoc / reset
  case 10: case 11: { // guard with a (possibly growing) bound
    std::string c = ix && r.coin() ? "(ix " + I(-r.range(0, 30)) + " " + I(-r.range(1, 20)) + ")" : I(-r.range(0, 100));
    return "(assume 0 " + (r.coin() ? std::string("(le") : std::string("(lt")) + " (lin " + c + " (1 " + V(v) + "))))";
  }
  case 12: return "(assume 0 (le (lin " + I(r.range(-5, 5)) + " (1 " + V(v) + ") (-1 " + V(w == v ? v + 1 : w) + "))))";
  case 13: return "(assume 0 " + gen_cst(r, false, ix) + ")";
  case 14: return "(assign 0 " + V(v) + " " + gen_lin(r, false, ix, 2) + ")";
  default: return "(arith 0 " + std::string(r.coin() ? "add" : "sdiv") + " " + V(v) + " " + V(w) + " " + I(r.range(1, 4)) + ")";
  }
}

std::string gen_thresholds(Rng &r, std::vector<int64_t> *out = nullptr) {
  std::string s;
  unsigned n = 1 + r.below(9);
  for (unsigned i = 0; i < n; i++) {
    std::string t;
    switch (r.below(6)) {
    case 0: case 1: t = I(r.range(-20, 20)); break;
    case 2: t = I(r.range(-1000, 1000)); break;
    case 3: { int64_t p = 1LL << r.below(BIG_OK ? 40 : 16); t = I(r.coin() ? p : -p); break; }
    case 4: t = BIG_OK ? zs(gen_z(r)) : I(r.range(-100000, 100000)); break;
    default: t = I(r.range(-100, 100)); break;
    }
    s += " " + t;
  }
  return s;
}

std::string gen_mode(Rng &r) {
  unsigned k = r.below(20);
  if (k < 8) return "widen";
  if (k < 14) return "(thr" + gen_thresholds(r) + ")";
  if (k < 17) return "(delay " + I(r.range(1, 6)) + ")";
  return "(delaythr " + I(r.range(1, 6)) + gen_thresholds(r) + ")";
}

std::string gen_seed(Rng &r, const std::string &tail = "") {
  std::ostringstream o;
  o << "(seed-history";
  if (r.below(8) != 0) gen_seed_slot(r, o, 0);
  if (r.below(3) == 0) { gen_seed_slot(r, o, 1); if (r.coin()) o << " (join 0 0 1)"; }
  unsigned extra = r.below(4);
  for (unsigned i = 0; i < extra; i++) {
    switch (r.below(5)) {
    case 0: o << " (assign 0 " << V(r.below(NV)) << " " << gen_lin(r, BIG_OK, false) << ")"; break;
    case 1: o << " (assume 0 " << gen_cst(r, BIG_OK, false) << ")"; break;
    case 2: o << " " << gen_body_op(r, false); break;
    case 3: o << " (forget 0 " << V(r.below(NV)) << ")"; break;
    default: o << " (assign 0 " << V(r.below(NV)) << " (lin " << r.range(-9, 9) << "))"; break;
    }
  }
  if (r.below(40) == 0) o << " (bot 0)";
  o << tail << ")";
  return o.str();
}

std::string gen_accel(Rng &r) {
  // all constants / thresholds of the chain are crossed during the accelerated phase (steps 12..26)
  return " (accel 12 26 " + I(BIG_OK ? 10 : 2) + ")";
}

std::string gen_run(Rng &r, const Args &a) {
  bool thorough = a.tier == "thorough";
  BIG_OK = INT64_DOM ? false : SAFE_DOM ? r.below(10) == 0 : r.coin();
  unsigned nsteps = 80 + r.below(40);
  if (r.below(5) == 0) nsteps = 120 + r.below(thorough ? 181 : 81);
  std::string mode = gen_mode(r);
  std::ostringstream st, sx; // sx: extra seed ops (initial values of the loop variables)
  st << "(steps";
  unsigned profile = r.below(16);
  bool accel = true;
  switch (profile) {
  case 14: case 15: { // stable two-way relations between two variables whose bounds grow alternately (a closed left
                      // operand would re-derive the bound the previous widening dropped)
    unsigned v = r.below(NV), w = (v + 1 + r.below(NV - 1)) % NV;
    int64_t c1 = r.range(-2, 1), c2 = c1 + r.range(1, 2), b0 = r.range(0, 3);
    accel = false; // one bound moves per step by a fixed amount; an accelerated index would move both at once
    // relation: w + c1 <= v <= w + c2
    std::string rel = " (le (lin " + I(c1) + " (1 " + V(w) + ") (-1 " + V(v) + "))) (le (lin " + I(-c2) + " (1 " + V(v) + ") (-1 " + V(w) + ")))";
    if (profile == 14) {
      // (bound of v, bound of w) = (B + c2, B) on even steps, (B + c2, B + c2 - c1) on odd steps, B = b0 + (c2-c1)*(i div 2):
      // both bounds are tight and only one of them moves per step
      bool lower = r.coin();
      int64_t k = c2 - c1;
      for (unsigned ph = 0; ph < 2; ph++) {
        st << " (ind (assume 0" << rel;
        if (lower) st << " " << ge(V(v), I(b0 + c1)) << " " << ge(V(w), I(b0));
        st << " " << le(V(v), "(ixd " + I(-(b0 + c2)) + " " + I(-k) + " 2)")
           << " " << le(V(w), "(ixd " + I(-(b0 + (ph ? k : 0))) + " " + I(-k) + " 2)") << "))";
      }
      sx << " (top 0) (assume 0" << rel << " " << ge(V(v), I(b0 + c1)) << " " << ge(V(w), I(b0)) << " " << le(V(v), I(-(b0 + c1))) << " " << le(V(w), I(-b0)) << ")";
      if (r.below(3)) mode = r.coin() ? "widen" : "(delay " + I(r.range(1, 3)) + ")";
    } else {
      // two-counter loop: while(*) { if (v == w + c1) v += k else if (v == w + c2) w += k }   k = c2 - c1
      int64_t k = c2 - c1;
      st << " (bodyj (assume 0 (eq (lin " << c1 << " (1 " << V(w) << ") (-1 " << V(v) << ")))) (assign 0 " << V(v) << " (lin " << k << " (1 " << V(v) << "))))"
         << " (bodyj (assume 0 (eq (lin " << c2 << " (1 " << V(w) << ") (-1 " << V(v) << ")))) (assign 0 " << V(w) << " (lin " << k << " (1 " << V(w) << "))))";
      // start value with a non-singleton w, so that the relations are not implied by the bounds
      sx << " (top 0) (assume 0 " << ge(V(w), I(b0)) << " " << le(V(w), I(-(b0 + (r.coin() ? k : 0)))) << rel << ")";
      if (r.below(3)) mode = r.coin() ? "widen" : "(delay " + I(r.range(1, 3)) + ")";
    }
    // without acceleration a threshold would be crossed late in the chain: plain / delayed widening only
    if (mode.find("thr") != std::string::npos) mode = r.coin() ? "widen" : "(delay " + I(r.range(1, 3)) + ")";
    break;
  }
  case 12: { // disjunctive start value: two far-apart points per variable (joined), then a loop body / new interior points
    unsigned v = r.below(NV), w = (v + 1 + r.below(NV - 1)) % NV;
    int64_t a0 = r.range(-5, 5), gap = r.coin() ? r.range(50, 400) : (BIG_OK ? r.range(100000, 4000000000LL) : r.range(1000, 90000));
    sx << " (top 0) (top 1) (assign 0 " << V(v) << " (lin " << a0 << ")) (assign 1 " << V(v) << " (lin " << a0 + gap << "))";
    if (r.coin()) sx << " (assign 0 " << V(w) << " (lin " << r.range(-5, 5) << ")) (assign 1 " << V(w) << " (lin " << r.range(100, 999) << "))";
    sx << " (join 0 0 1)";
    if (r.below(3) == 0) sx << " (assume 0 (ne (lin " << -(a0 + r.range(1, 30)) << " (1 " << V(v) << "))))";
    if (r.below(4) == 0) {
      // a third point in the middle and a loop that only moves the middle disjunct
      int64_t m = a0 + gap / 3;
      sx << " (top 2) (assign 2 " << V(v) << " (lin " << m << ")) (join 0 0 2)";
      st << " (bodyj (assume 0 (le (lin " << m << " (-1 " << V(v) << ")))) (assume 0 (lt (lin " << -(a0 + gap - 5) << " (1 " << V(v) << "))))"
         << " (assign 0 " << V(v) << " (lin " << r.range(1, 3) << " (1 " << V(v) << "))))";
    } else if (r.below(3)) {
      st << " (bodyj";
      if (r.coin()) st << " (assume 0 (ne (lin " << -(a0 + r.range(1, 30)) << " (1 " << V(v) << "))))";
      st << " (assign 0 " << V(v) << " (lin " << r.range(1, 5) << " (1 " << V(v) << ")))";
      if (r.coin()) st << " (assign 0 " << V(w) << " (lin " << r.range(-3, 3) << " (1 " << V(w) << ")))";
      st << ")";
    } else {
      st << " (ind (assign 0 " << V(v) << " (lin (ix " << a0 + 2 << " " << r.range(2, 5) << "))) (joineq 0 1))";
    }
    break;
  }
  case 0: case 1: { // loop counter: guard, increment, a dependent accumulator; loop head joins the entry value
    unsigned v = r.below(NV), w = (v + 1 + r.below(NV - 1)) % NV;
    if (r.below(8)) sx << " (assign 0 " << V(v) << " (lin " << r.range(-3, 3) << "))";
    if (r.below(3)) sx << " (assign 0 " << V(w) << " (lin " << r.range(-3, 3) << "))";
    st << " (bodyj";
    if (r.below(4) != 0) st << " (assume 0 (lt (lin " << -r.range(1, 200) << " (1 " << V(v) << "))))";
    st << " (assign 0 " << V(v) << " (lin " << r.range(1, 4) << " (1 " << V(v) << ")))";
    switch (r.below(5)) {
    case 0: st << " (assign 0 " << V(w) << " (lin 0 (1 " << V(w) << ") (1 " << V(v) << ")))"; break;
    case 1: st << " (assign 0 " << V(w) << " (lin " << r.range(-3, 3) << " (1 " << V(w) << ")))"; break;
    case 2: st << " (arith 0 mul " << V(w) << " " << V(w) << " 2)"; break;
    case 3: st << " (assign 0 " << V(w) << " (lin " << r.range(-3, 3) << " (" << r.range(1, 3) << " " << V(v) << ")))"; break;
    default: break;
    }
    st << ")";
    break;
  }
  case 2: case 3: { // random loop bodies (1..3 alternating bodies = several back edges)
    unsigned nb = 1 + r.below(3);
    for (unsigned b = 0; b < nb; b++) {
      st << " (" << (r.below(3) ? "bodyj" : "body");
      unsigned n = 1 + r.below(4);
      for (unsigned j = 0; j < n; j++) st << " " << gen_body_op(r, true);
      if (r.below(4)) { unsigned v = r.below(NV); st << " (assign 0 " << V(v) << " (lin " << r.range(-4, 4) << " (1 " << V(v) << ")))"; sx << " (assign 0 " << V(v) << " (lin " << r.range(-5, 5) << "))"; }
      st << ")";
    }
    break;
  }
  case 4: { // independent values with ever-growing bounds
    st << " (ind";
    unsigned nv = 1 + r.below(3);
    for (unsigned j = 0; j < nv; j++) {
      std::string v = gen_var(r, true);
      int64_t lo = r.range(-20, 20), hi = lo + r.range(0, 20);
      std::string g = r.below(3) == 0 ? "ixq" : "ix";
      int64_t dl = r.range(0, r.coin() ? 3 : 500), dh = r.range(0, r.coin() ? 3 : 500);
      if (r.below(6) == 0) st << " (assume 0 " << ge(v, "(ixp " + I(lo) + " -1 " + I(BIG_OK ? r.range(8, 90) : r.range(4, 14)) + ")") << " " << le(v, "(ixp " + I(-hi) + " -1 " + I(BIG_OK ? r.range(8, 90) : r.range(4, 14)) + ")") << ")";
      else st << " (assume 0 " << ge(v, "(" + g + " " + I(lo) + " " + I(-dl) + ")") << " " << le(v, "(" + g + " " + I(-hi) + " " + I(-dh) + ")") << ")";
    }
    if (r.coin()) {
      unsigned a2 = r.below(NV), b2 = (a2 + 1 + r.below(NV - 1)) % NV;
      st << " (assume 0 (le (lin (ix " << r.range(-9, 9) << " " << -r.range(0, 9) << ") (1 " << V(a2) << ") (-1 " << V(b2) << "))))";
    }
    st << ")";
    break;
  }
  case 5: { // alternating variables: each step moves another variable's bound
    bool body = r.coin();
    st << " (" << (body ? "body" : "ind");
    std::string v = r.coin() ? "(vix " + I(r.below(NV)) + ")" : "(vixd " + I(r.below(NV)) + " " + I(r.range(2, 3)) + ")";
    if (body) st << " (forget 0 " << v << ")";
    st << " (assume 0 " << ge(v, "(ix " + I(r.range(-9, 9)) + " " + I(-r.range(0, 9)) + ")") << " " << le(v, "(ix " + I(r.range(-20, 0)) + " " + I(-r.range(1, 9)) + ")") << "))";
    break;
  }
  case 6: { // growing coefficients: a new (out-of-language) relation every step
    st << " (ind";
    unsigned a2 = r.below(NV), b2 = (a2 + 1 + r.below(NV - 1)) % NV;
    st << " (assume 0 " << ge(V(a2), I(r.range(-9, 0))) << " " << le(V(a2), I(-r.range(1, 30))) << ")";
    st << " (assume 0 (le (lin " << r.range(-9, 9) << " ((ix 1 " << r.range(1, 3) << ") " << V(a2) << ") (-1 " << V(b2) << "))))";
    if (r.coin()) st << " (assume 0 (le (lin " << r.range(-9, 9) << " ((ix -1 " << -r.range(1, 3) << ") " << V(a2) << ") (1 " << V(b2) << "))))";
    st << ")";
    break;
  }
  case 7: { // new relations every step: rotating difference / sum constraints with growing constants
    bool body = r.coin();
    st << " (" << (body ? "body" : "ind");
    unsigned k1 = r.below(NV), k2 = (k1 + 1 + r.below(NV - 1)) % NV;
    std::string m = I(r.range(1, 3));
    std::string va = "(vixd " + I(k1) + " " + m + ")", vb = "(vixd " + I(k2) + " " + m + ")";
    if (body) st << " (forget 0 " << (r.coin() ? va : vb) << ")";
    st << " (assume 0 (le (lin (ix " << r.range(-9, 9) << " " << -r.range(0, 5) << ") (1 " << va << ") (" << (r.below(3) ? "-1" : "1") << " " << vb << "))))";
    if (r.coin()) st << " (assume 0 " << ge(va, "(ix 0 " + I(-r.range(0, 3)) + ")") << " " << le(vb, "(ix -5 " + I(-r.range(0, 3)) + ")") << ")";
    st << ")";
    break;
  }
  case 8: { // constants jumping over the thresholds: regularly spaced thresholds, bounds one above
    int64_t t0 = r.range(-50, 50), sp = r.range(2, 40);
    unsigned T = 2 + r.below(5);
    std::string ths;
    for (unsigned j = 0; j < T; j++) ths += " " + I(t0 + (int64_t)j * sp);
    mode = r.below(4) ? "(thr" + ths + ")" : "(delaythr " + I(r.range(1, 3)) + ths + ")";
    unsigned v = r.below(NV);
    if (r.coin()) {
      st << " (ind (assume 0 " << ge(V(v), I(t0 - 3)) << " " << le(V(v), "(ix " + I(-(t0 + 1)) + " " + I(-sp) + ")") << "))";
      if (r.coin()) st << " (ind (assume 0 " << le(V(v + 1), I(-(t0 + 3))) << " " << ge(V(v + 1), "(ix " + I(t0 - 1) + " " + I(-sp) + ")") << "))";
    } else {
      sx << " (assign 0 " << V(v) << " (lin " << t0 - r.range(0, 3) << ")) (assign 0 " << V(v + 1) << " (lin " << t0 + r.range(0, 3) << "))";
      st << " (bodyj (assign 0 " << V(v) << " (lin " << sp << " (1 " << V(v) << ")))";
      if (r.coin()) st << " (assign 0 " << V(v + 1) << " (lin " << -sp << " (1 " << V(v + 1) << ")))";
      st << ")";
    }
    nsteps = std::max(nsteps, 60 + 12 * T);
    break;
  }
  case 9: { // random independent values (cyclic pattern of 1..5)
    unsigned n = 1 + r.below(5);
    for (unsigned j = 0; j < n; j++) {
      std::ostringstream o;
      gen_seed_slot(r, o, 0);
      st << " (ind" << o.str();
      if (r.below(3) == 0) st << " (assume 0 " << gen_cst(r, BIG_OK, true) << ")";
      st << ")";
    }
    break;
  }
  default: { // mixed random pattern
    unsigned n = 1 + r.below(5);
    for (unsigned j = 0; j < n; j++) {
      unsigned kind = r.below(3);
      st << " (" << (kind == 0 ? "ind" : kind == 1 ? "body" : "bodyj");
      unsigned m = 1 + r.below(4);
      for (unsigned q = 0; q < m; q++) {
        switch (r.below(6)) {
        case 0: st << " (assign 0 " << V(r.below(NV)) << " " << gen_lin(r, BIG_OK, true) << ")"; break;
        case 1: case 2: st << " (assume 0 " << gen_cst(r, BIG_OK, true) << ")"; break;
        case 3: st << " (joineq 0 1)"; break;
        default: st << " " << gen_body_op(r, true); break;
        }
      }
      st << ")";
    }
    break;
  }
  }
  st << ")";
  return "(wchain.run " DOMNAME " " + mode + " " + I(nsteps) + " " + gen_seed(r, sx.str()) + " " + st.str() + (accel ? gen_accel(r) : std::string()) + ")";
}

std::string gen_narrow(Rng &r, const Args &) {
  BIG_OK = INT64_DOM ? false : SAFE_DOM ? r.below(10) == 0 : r.coin();
  std::ostringstream st;
  st << "(steps";
  unsigned n = 1 + r.below(3);
  for (unsigned j = 0; j < n; j++) {
    unsigned kind = r.below(4);
    st << " (" << (kind == 0 ? "bodyj" : "body");
    if (kind == 0) {
      // loop-head shape: guard, increment, join with the entry value
      unsigned v = r.below(NV);
      st << " (assume 0 (lt (lin " << -r.range(1, 60) << " (1 " << V(v) << "))))";
      st << " (assign 0 " << V(v) << " (lin " << r.range(1, 3) << " (1 " << V(v) << ")))";
    } else {
      unsigned m = 1 + r.below(3);
      for (unsigned q = 0; q < m; q++) st << " (assume 0 " << gen_cst(r, BIG_OK, true) << ")";
    }
    st << ")";
  }
  st << ")";
  // seed: a (mostly) widened-looking value: half lines and a few relations
  std::ostringstream sd;
  sd << "(seed-history";
  unsigned nv = 1 + r.below(4);
  for (unsigned j = 0; j < nv; j++) {
    unsigned v = r.below(NV);
    if (r.below(3) == 0) sd << " (assume 0 " << ge(V(v), I(r.range(-12, 12))) << " " << le(V(v), I(-r.range(13, 200))) << ")";
    else sd << " (assume 0 " << (r.coin() ? ge(V(v), I(r.range(-12, 12))) : le(V(v), I(-r.range(-12, 12)))) << ")";
  }
  if (r.coin()) sd << " (assume 0 " << gen_cst(r, BIG_OK, false) << ")";
  sd << ")";
  return "(wchain.narrow " DOMNAME " " + std::string(r.coin() ? "narrow" : "meet1") + " " + I(1 + r.below(8)) + " " + sd.str() + " " + st.str() + ")";
}

// ---- wrapped_interval chains
std::string gen_wx(Rng &r, unsigned w, bool ix) {
  uint64_t m = maskw(w), half = 1ULL << (w - 1);
  auto pt = [&]() -> uint64_t {
    switch (r.below(8)) {
    case 0: return 0;
    case 1: return m;
    case 2: return half;
    case 3: return (half - 1) & m;
    case 4: return r.below(8) & m;
    case 5: return (m - r.below(8)) & m;
    default: return r.next() & m;
    }
  };
  unsigned k = r.below(20);
  if (k == 0) return "bot";
  if (k == 1) return "top";
  uint64_t s = pt();
  std::string S = std::to_string((unsigned long long)s), E;
  if (k < 6) E = S;
  else if (k < 14) E = std::to_string((unsigned long long)((s + r.below(12)) & m));
  else if (k < 16) E = std::to_string((unsigned long long)((s + (r.next() & (m >> 1))) & m));
  else E = std::to_string((unsigned long long)pt());
  if (ix && r.below(8) == 0) E = "(ixp " + E + " 1 " + I(r.range(2, 70)) + ")";
  else if (ix && r.below(3) == 0) E = "(ix " + E + " " + I(r.range(1, 9)) + ")";
  if (ix && r.below(4) == 0) S = "(ix " + S + " " + I(-r.range(1, 9)) + ")";
  return "(" + std::to_string(w) + " " + S + " " + E + ")";
}

std::string gen_wint(Rng &r, const Args &) {
  static const unsigned fav[] = {8, 16, 32, 64, 8, 32, 64, 3, 4, 5, 7, 33, 34, 35, 40, 48, 63, 2, 1};
  unsigned w = r.below(10) < 7 ? fav[r.below(19)] : 1 + (unsigned)r.below(64);
  std::string mode;
  unsigned k = r.below(20);
  auto thr = [&]() {
    std::string s;
    unsigned n = 1 + r.below(9);
    for (unsigned i = 0; i < n; i++) {
      switch (r.below(4)) {
      case 0: s += " " + I(r.range(0, 300)); break;
      case 1: s += " " + std::to_string((unsigned long long)(r.next() & maskw(w))); break;
      case 2: s += " " + std::to_string((unsigned long long)((1ULL << r.below(w)) - r.below(2))); break;
      default: s += " " + I(r.range(-200, 70000)); break;
      }
    }
    return s;
  };
  if (k < 8) mode = "widen";
  else if (k < 15) mode = "(thr" + thr() + ")";
  else if (k < 18) mode = "(delay " + I(r.range(1, 5)) + ")";
  else mode = "(delaythr " + I(r.range(1, 5)) + thr() + ")";
  unsigned nsteps = 80 + r.below(120);
  std::ostringstream ys;
  ys << "(ys";
  unsigned n = 1 + r.below(4);
  for (unsigned j = 0; j < n; j++) {
    switch (r.below(9)) {
    case 0: ys << " (grow " << r.range(0, 3) << " " << r.range(0, 3) << ")"; break;
    case 1: ys << " (grow " << (r.coin() ? 0 : 1) << " " << (r.coin() ? 1 : 0) << ")"; break;
    case 2: ys << " (shift " << r.range(-9, 9) << ")"; break;
    case 3: ys << " (next " << r.range(1, 9) << ")"; break;
    case 4: ys << " (add " << gen_wx(r, w, false) << ")"; break;
    case 5: ys << " (mul " << r.range(2, 3) << ")"; break;
    default: ys << " " << gen_wx(r, w, true); break;
    }
  }
  ys << ")";
  std::string acc = " (accel 12 26 " + I(1 + r.below(5)) + ")";
  return "(wchain.wint " + std::to_string(w) + " " + mode + " " + I(nsteps) + " " + gen_wx(r, w, false) + " " + ys.str() + acc + ")";
}

std::string gen(Rng &r, const Args &a) {
#ifdef WSCALAR
  return gen_wint(r, a);
#else
  if (r.below(8) == 0) return gen_narrow(r, a);
  return gen_run(r, a);
#endif
}

} // namespace

int main(int argc, char **argv) {
  crab::CrabEnableWarningMsg(false);
  return run_harness(argc, argv, gen, eval);
}
