// Backward (necessary-precondition) analysis harness, property C11 (mechanism R).
// One shipped abstract domain per binary (-DVDOM=<id>, same ids as h_dom.cpp):
//   1 intervals, 8 split_oct (SafeInt64), 9 dis_intervals, 14 flat_boolean(intervals),
//   26 split_dbm (int64)            -- backward_assign / backward_apply = BackwardAssignOps
//   2 constants, 3 signs            -- the two operations had an empty body (identity)
// (fixed_tvpi, lookahead_widening, numerical_packing, powerset, value_partitioning, uf and the
//  wrapped-interval family only warn "not implemented"; the latter forget x, the others do
//  nothing.)
//
// requests
//   (bwd.run <dom> <mode> <invk> (final F) PROG)
//        mode ::= error | good          (constructor flag good_states of
//                                        necessary_preconditions_fixpoint_iterator)
//        invk ::= fwd | top | none      forward invariants handed to run_backward: the ones the
//                                        forward analyser computes with the same domain from top /
//                                        top for every block / the overload without a map
//        F    ::= bot | top | (box ITV...)   final states given at the exit block (one interval
//                                        per variable)
//        PROG : see bprog.hpp
//     => (fwd (<label> FACTS)...) (pre (<label> FACTS)...)
//        FACTS ::= (f <is_bottom> (iv ITV...) (cs CST...))     `pre` is analyzer[label]
//   (bwd.op <dom> <mode> <nvars> STMT (post V) (inv V))         V ::= bot | (cs CST...)
//        one statement through intra_necessary_preconditions_abs_transformer::exec with the
//        per-statement forward invariant `inv`, started from `post`
//     => FACTS
//   (bwd.fb <dom> PROG)
//        intra_forward_backward_analyzer with the backward pass enabled, init = top
//     => (safe (<label> <stmt index>)...)      assertions in get_safe_assertions()
#include "bprog.hpp"

#include <crab/analysis/bwd_analyzer.hpp>
#include <crab/analysis/fwd_analyzer.hpp>
#include <crab/domains/constant_domain.hpp>
#include <crab/domains/dis_intervals.hpp>
#include <crab/domains/flat_boolean_domain.hpp>
#include <crab/domains/intervals.hpp>
#include <crab/domains/sign_domain.hpp>
#include <crab/domains/split_dbm.hpp>
#include <crab/domains/split_oct.hpp>

#include <set>
#include <unordered_map>

using namespace vh;
using namespace bp;
using namespace crab::cfg_impl;
using namespace crab::domains;
using namespace ikos;

#ifndef VDOM
#define VDOM 1
#endif

using z_interval_domain_t = interval_domain<z_number, varname_t>;
using z_dbm_graph_t = DBM_impl::DefaultParams<z_number, DBM_impl::GraphRep::adapt_ss>;
using z_dbm_graph_safe_t = DBM_impl::SafeInt64DefaultParams<z_number, DBM_impl::GraphRep::adapt_ss>;

#if VDOM == 1
using Dom = z_interval_domain_t;
#define DOMNAME "intervals"
#elif VDOM == 2
using Dom = constant_domain<z_number, varname_t>;
#define DOMNAME "constants"
#elif VDOM == 3
using Dom = sign_domain<z_number, varname_t>;
#define DOMNAME "signs"
#elif VDOM == 8
using Dom = split_oct_domain<z_number, varname_t, z_dbm_graph_safe_t>;
#define DOMNAME "split-oct-safe"
#elif VDOM == 9
using Dom = dis_interval_domain<z_number, varname_t>;
#define DOMNAME "dis-intervals"
#elif VDOM == 14
using Dom = flat_boolean_numerical_domain<z_interval_domain_t>;
#define DOMNAME "flat-bool-intervals"
#elif VDOM == 26
using Dom = split_dbm_domain<z_number, varname_t, z_dbm_graph_t>;
#define DOMNAME "split-dbm-int64"
#else
#error "unknown VDOM for h_bwd (1 intervals, 2 constants, 3 signs, 8 split-oct, 9 dis-intervals, 14 flat-bool-intervals, 26 split-dbm)"
#endif

namespace {

Dom mk_top() {
  Dom d;
  return d.make_top();
}

std::string facts(Dom d, const Ctx &c, unsigned nv) {
  std::ostringstream o;
  bool b = d.is_bottom();
  o << "(f " << (b ? 1 : 0) << " (iv";
  for (unsigned i = 0; i < nv; i++) o << " " << ivs(d.at(c.var(i)));
  o << ") (cs";
  auto sys = d.to_linear_constraint_system();
  for (auto it = sys.begin(); it != sys.end(); ++it) {
    std::string s = cst_str(*it);
    if (!s.empty()) o << " " << s;
  }
  o << "))";
  return o.str();
}

// V ::= bot | (cs CST...)
Dom parse_val(const Ctx &c, const Sx &v) {
  Dom d = mk_top();
  if (v.is_atom) {
    if (v.a == "bot") d.set_to_bottom();
    return d;
  }
  for (size_t i = 1; i < v.size(); i++) d += parse_cst(c, v[i]);
  return d;
}

// F ::= bot | top | (box ITV...)
Dom parse_final(const Ctx &c, const Sx &f) {
  Dom d = mk_top();
  if (f.is_atom) {
    if (f.a == "bot") d.set_to_bottom();
    return d;
  }
  for (size_t i = 1; i < f.size(); i++) {
    z_interval iv = parse_interval(f[i]);
    if (iv.is_bottom()) { d.set_to_bottom(); return d; }
    const z_var &v = c.var((unsigned)(i - 1));
    if (iv.lb().is_finite()) d += z_lin_cst_t(z_lin_exp_t(v) >= *iv.lb().number());
    if (iv.ub().is_finite()) d += z_lin_cst_t(z_lin_exp_t(v) <= *iv.ub().number());
  }
  return d;
}

std::string eval_run(const Sx &q) {
  const std::string &mode = q[2].a, &invk = q[3].a;
  Built B = build(q[5]);
  const Ctx &c = *B.ctx;
  z_cfg_ref_t cfg(*B.cfg);
  Dom fac = mk_top();
  crab::fixpoint_parameters params;
  std::unordered_map<basic_block_label_t, Dom> invs;
  if (invk == "fwd") {
    crab::analyzer::intra_fwd_analyzer<z_cfg_ref_t, Dom> F(cfg, fac, nullptr, params);
    F.run(mk_top());
    for (auto &l : B.labels) invs.insert({l, F.get_pre(l)});
  } else if (invk == "top") {
    for (auto &l : B.labels) invs.insert({l, mk_top()});
  }
  Dom fin = parse_final(c, q[4][1]);
  crab::analyzer::necessary_preconditions_fixpoint_iterator<z_cfg_ref_t, Dom> an(cfg, fac, mode == "good", params);
  if (invk == "none") an.run_backward(fin);
  else an.run_backward(fin, invs);
  std::ostringstream o;
  o << "(fwd";
  for (auto &l : B.labels) {
    auto it = invs.find(l);
    o << " (" << l << " " << facts(it == invs.end() ? mk_top() : it->second, c, B.nvars) << ")";
  }
  o << ") (pre";
  for (auto &l : B.labels) o << " (" << l << " " << facts(an[l], c, B.nvars) << ")";
  o << ")";
  return o.str();
}

std::string eval_op(const Sx &q) {
  using stmt_t = z_cfg_t::statement_t;
  using inv_map_t = std::unordered_map<const stmt_t *, Dom>;
  const std::string &mode = q[2].a;
  unsigned nv = (unsigned)std::stoul(q[3].a);
  Ctx c(nv);
  z_cfg_t cfg("b0", "b0");
  z_basic_block_t &b = cfg.insert("b0");
  add_stmt(c, b, q[4]);
  Dom post = parse_val(c, q[5][1]);
  Dom inv = parse_val(c, q[6][1]);
  stmt_t &s = *b.begin();
  inv_map_t m;
  m.insert({&s, inv});
  crab::analyzer::intra_necessary_preconditions_abs_transformer<z_basic_block_t, Dom, inv_map_t> T(post, &m, mode == "good");
  s.accept(&T);
  return facts(T.preconditions(), c, nv);
}

std::string eval_fb(const Sx &q) {
  using stmt_t = z_cfg_t::statement_t;
  Built B = build(q[2]);
  z_cfg_ref_t cfg(*B.cfg);
  Dom fac = mk_top();
  crab::fixpoint_parameters params;
  crab::analyzer::fwd_bwd_parameters fb;
  fb.enable_backward() = true;
  crab::analyzer::intra_forward_backward_analyzer<z_cfg_ref_t, Dom> an(cfg, fac);
  typename crab::analyzer::intra_forward_backward_analyzer<z_cfg_ref_t, Dom>::assumption_map_t asm_map;
  an.run(mk_top(), asm_map, nullptr, params, fb);
  std::set<const stmt_t *> safe;
  an.get_safe_assertions(safe);
  std::ostringstream o;
  o << "(safe";
  for (auto &l : B.labels) {
    z_basic_block_t &b = B.cfg->get_node(l);
    unsigned i = 0;
    for (auto it = b.begin(); it != b.end(); ++it, ++i)
      if (safe.count(&*it)) o << " (" << l << " " << i << ")";
  }
  o << ")";
  return o.str();
}

std::string eval(const Sx &q) {
  const std::string &h = q[0].a;
  if (h == "bwd.run") return eval_run(q);
  if (h == "bwd.op") return eval_op(q);
  if (h == "bwd.fb") return eval_fb(q);
  return "err";
}

// ---------------------------------------------------------------- generators
std::string V(unsigned i) { return "v" + std::to_string(i); }

int64_t gen_k(Rng &r) {
  switch (r.below(8)) {
  case 0: return 0;
  case 1: return 1;
  case 2: return -1;
  case 3: case 4: return r.range(-3, 3);
  default: return r.range(-8, 8);
  }
}

std::string gen_lin(Rng &r, unsigned nv, unsigned maxterms = 2) {
  std::string s = "(lin " + std::to_string(gen_k(r));
  unsigned k = r.below(maxterms + 1);
  std::vector<bool> used(nv, false);
  std::vector<std::pair<unsigned, int64_t>> ts;
  for (unsigned i = 0; i < k; i++) {
    unsigned v = r.below(nv);
    if (used[v]) continue;
    used[v] = true;
    static const int64_t CO[] = {1, 1, 1, -1, -1, 2, -2, 3};
    ts.push_back({v, CO[r.below(8)]});
  }
  std::sort(ts.begin(), ts.end());
  for (auto &t : ts) s += " (" + std::to_string(t.second) + " " + V(t.first) + ")";
  return s + ")";
}

std::string gen_cst(Rng &r, unsigned nv) {
  static const char *K[] = {"le", "le", "le", "le", "lt", "eq", "ne", "ne"};
  std::string k = K[r.below(8)];
  unsigned shape = r.below(20);
  if (shape < 12 || nv < 2) { // ±x ⋈ c
    return "(" + k + " (lin " + std::to_string(gen_k(r)) + " (" + (r.coin() ? "1" : "-1") + " " + V(r.below(nv)) + ")))";
  } else if (shape < 17) { // x - y ⋈ c, x + y ⋈ c
    unsigned a = r.below(nv), b = r.below(nv);
    if (a == b) b = (a + 1) % nv;
    if (a > b) std::swap(a, b);
    bool plus = r.below(4) == 0;
    bool neg = r.coin();
    return "(" + k + " (lin " + std::to_string(gen_k(r)) + " (" + (neg ? "-1" : "1") + " " + V(a) + ") (" + ((neg != plus) ? "1" : "-1") + " " + V(b) + ")))";
  }
  return "(" + k + " " + gen_lin(r, nv) + ")";
}

std::string gen_stmt(Rng &r, unsigned nv, unsigned kind /* 0..99 */) {
  static const char *OP[] = {"add", "sub", "mul", "sdiv"};
  if (kind < 22) return "(assign " + V(r.below(nv)) + " " + gen_lin(r, nv) + ")";
  if (kind < 50) {
    std::string op = OP[r.below(4)];
    std::string z;
    if (r.below(5) < 2) z = V(r.below(nv));
    else {
      static const int64_t ZS[] = {0, 1, -1, 2, 2, 3, -2, 4, -3, 5};
      z = std::to_string(r.below(3) ? ZS[r.below(10)] : gen_k(r));
    }
    return "(bin " + op + " " + V(r.below(nv)) + " " + V(r.below(nv)) + " " + z + ")";
  }
  if (kind < 58) return "(havoc " + V(r.below(nv)) + ")";
  if (kind < 72) return "(assume " + gen_cst(r, nv) + ")";
  if (kind < 88) return "(assert " + gen_cst(r, nv) + ")";
  return "(select " + V(r.below(nv)) + " " + gen_cst(r, nv) + " " + gen_lin(r, nv, 1) + " " + gen_lin(r, nv, 1) + ")";
}

std::string gen_prog(Rng &r, bool thorough) {
  unsigned nv = 2 + r.below(3);
  unsigned nb = 2 + r.below(thorough ? 9 : 7);
  unsigned ex = nb - 1;
  std::vector<std::set<unsigned>> succ(nb);
  std::vector<std::vector<unsigned>> succl(nb);
  auto add = [&](unsigned a, unsigned b) { if (succ[a].insert(b).second) succl[a].push_back(b); };
  // spine entry -> ... -> exit (most of the time)
  std::vector<bool> onspine(nb, false);
  if (r.below(12) != 0) {
    unsigned cur = 0;
    onspine[0] = true;
    while (cur != ex) {
      unsigned nx = cur + 1 + (unsigned)r.below(std::min<unsigned>(3, ex - cur));
      add(cur, nx);
      onspine[nx] = true;
      cur = nx;
    }
  }
  for (unsigned i = 0; i < nb; i++) {
    if (i == ex) { if (r.below(25) == 0) add(i, (unsigned)r.below(nb)); continue; }
    unsigned extra;
    if (onspine[i]) extra = r.below(3) == 0 ? 0 : (r.below(4) == 0 ? 2 : 1);
    else extra = r.below(4) == 0 ? 0 : 1 + (r.below(3) == 0); // 25% of off-spine blocks are dead ends
    for (unsigned e = 0; e < extra; e++) {
      unsigned t;
      unsigned w = r.below(10);
      if (w < 6 && i + 1 < nb) t = i + 1 + (unsigned)r.below(nb - i - 1); // forward
      else if (w < 9) t = (unsigned)r.below(i + 1);                        // back edge / self loop
      else t = (unsigned)r.below(nb);
      add(i, t);
    }
  }
  if (succl[0].empty() && nb > 1) add(0, 1 + (unsigned)r.below(nb - 1));
  std::ostringstream o;
  o << "(prog " << nv << " b0 b" << ex;
  bool assert_heavy = r.coin();
  for (unsigned i = 0; i < nb; i++) {
    o << " (blk b" << i << " (st";
    unsigned ns = r.below(5);
    if (i == 0 && r.coin()) {
      // give the variables a start: constants or havoc
      for (unsigned v = 0; v < nv; v++)
        if (r.coin()) o << " (assign " << V(v) << " (lin " << r.range(-4, 6) << "))";
    }
    for (unsigned s = 0; s < ns; s++) {
      unsigned kind = r.below(100);
      if (assert_heavy && r.below(4) == 0) kind = 72 + r.below(16);
      o << " " << gen_stmt(r, nv, kind);
    }
    // a guard at the end of a loop-ish block now and then
    o << ") (succ";
    for (unsigned t : succl[i]) o << " b" << t;
    o << "))";
  }
  o << ")";
  return o.str();
}

std::string gen_box(Rng &r, unsigned nv) {
  std::string s = "(box";
  for (unsigned i = 0; i < nv; i++) {
    unsigned k = r.below(10);
    if (k < 4) s += " (iv -oo +oo)";
    else if (k < 5) s += " (iv " + std::to_string(r.range(-6, 6)) + " +oo)";
    else if (k < 6) s += " (iv -oo " + std::to_string(r.range(-6, 6)) + ")";
    else { int64_t lo = r.range(-8, 8), hi = lo + r.range(0, 6) * (r.coin() ? 1 : 0); s += " (iv " + std::to_string(lo) + " " + std::to_string(hi) + ")"; }
  }
  return s + ")";
}

std::string gen_val(Rng &r, unsigned nv, bool allow_bot, unsigned maxc) {
  if (allow_bot && r.below(30) == 0) return "bot";
  std::string s = "(cs";
  unsigned n = r.below(maxc + 1);
  for (unsigned i = 0; i < n; i++) s += " " + gen_cst(r, nv);
  return s + ")";
}

std::string gen(Rng &r, const Args &a) {
  bool thorough = a.tier == "thorough";
  unsigned which = r.below(100);
  std::string mode = r.coin() ? "error" : "good";
  if (which < 62) {
    std::string prog = gen_prog(r, thorough);
    unsigned nv = (unsigned)std::stoul(prog.substr(6, 1));
    static const char *IK[] = {"fwd", "fwd", "top", "none"};
    std::string fin;
    if (mode == "error") fin = r.below(8) == 0 ? gen_box(r, nv) : "bot";
    else fin = r.below(6) == 0 ? "top" : (r.below(40) == 0 ? "bot" : gen_box(r, nv));
    return "(bwd.run " DOMNAME " " + mode + " " + IK[r.below(4)] + " (final " + fin + ") " + prog + ")";
  } else if (which < 92) {
    unsigned nv = 2 + r.below(3);
    unsigned kind = r.below(100);
    return "(bwd.op " DOMNAME " " + mode + " " + std::to_string(nv) + " " + gen_stmt(r, nv, kind) + " (post " +
           gen_val(r, nv, true, 3) + ") (inv " + (r.below(5) < 2 ? std::string("(cs)") : gen_val(r, nv, false, 2)) + "))";
  }
  return "(bwd.fb " DOMNAME " " + gen_prog(r, thorough) + ")";
}

} // namespace

int main(int argc, char **argv) {
  crab::CrabEnableWarningMsg(false);
  return run_harness(argc, argv, gen, eval);
}
