// Exact-correspondence harness for crab::domains::wrapped_interval_domain<z_number, varname_t>
// (include/crab/domains/wrapped_interval_domain.hpp, first class of the file): the environment
// separate_domain<variable_t, wrapped_interval> + eval_expr / assign / apply (arithmetic, bitwise,
// casts) / operator+= (linear_interval_solver over wrapped intervals) / forget / project / rename /
// expand / lattice operations / set / at / to_linear_constraint_system.
// Variables carry a bit-width; an operation history is run over a pool of abstract values; after
// EVERY operation the complete value of the target is printed and the Lean driver
// (lean/Driver/WDomH.lean) compares it with the model `Crab.WDom` (CrabModel/Dom/WIntDomain.lean)
// op by op, and replays the history on concrete bit-vector witness states.
//
// request : (wdom.hist (ws w0 ... w7) (ops <op> ...))      wI = declared bit-width of vI
//   <op> ::= (top d) | (bot d) | (copy d s) | (assign d x <lin>) | (wassign d x <lin>)
//          | (arith d <aop> x y <z>) | (bitw d <bop> x y <z>) | (assume d <cst>...)
//          | (forget d x...) | (forget1 d x) | (project d x...) | (rename d (x...) (y...))
//          | (expand d x y) | (join d a b) | (meet d a b) | (widen d a b) | (narrow d a b)
//          | (joineq d a) | (meeteq d a) | (cast d zext|sext|trunc x y)
//          | (setw d x <wint>) | (setn d x k) | (seti d x lb ub)
//          | (entails d <cst>) | (leq d a) | (at d x)
//   <z>    ::= variable `vK` or integer constant ; <lin> ::= (lin c (k vI) ...)
//   <cst>  ::= (le <lin>) | (lt <lin>) | (eq <lin>) | (ne <lin>)        meaning  lin ⋈ 0
//   <wint> ::= bot | top | (w s e)      as in h_wint.cpp
// result  : one item per op:  (s <isbot> <istop> (b (vI <wint>)...) (cs <cst>...) <q>)
//   <q> = answer of a query op (entails, leq: 0/1; at: interval), `-` otherwise;
//   `(err)` if the op raised CRAB_ERROR (the history stops there).
// Generator legality: all the variables of one assign / arith / bitw / constraint / rename / expand
// have the same declared width (mixing widths makes the wrapint operations raise CRAB_ERROR and is
// outside the model); casts go between widths; in constraints the constant `-c` and `c` fit the
// signed range of the width and the coefficients are small (only 1 / -1 for 1-bit variables:
// mk_winterval reduces a coefficient modulo 2^w, so `2*b <= 0` over a 1-bit `b` divides by 0).
#include "common.hpp"
#include "crab_lang.hpp"

#include <crab/domains/wrapped_interval_domain.hpp>

#include <algorithm>
#include <map>

using namespace vh;
using namespace crab::cfg_impl;
using namespace crab::domains;
using namespace ikos;
using crab::wrapint;

namespace {

using Dom = wrapped_interval_domain<z_number, varname_t>;
using wi_t = wrapped_interval<z_number>;

const unsigned NV = 8; // integer variables v0..v7
const unsigned NP = 4; // pool slots

std::vector<z_var> *VARS = nullptr;
z_var var(unsigned i) { return (*VARS).at(i); }
unsigned vidx(const Sx &x) { return std::stoul(x.a.substr(1)); }

std::string u64s(uint64_t v) { return std::to_string((unsigned long long)v); }
uint64_t pu64(const Sx &x) { return std::strtoull(x.a.c_str(), nullptr, 10); }

std::string wis(const wi_t &x) {
  if (x.is_bottom()) return "bot";
  if (x.is_top()) return "top";
  return "(" + u64s(x.start().get_bitwidth()) + " " + u64s(x.start().get_uint64_t()) + " " +
         u64s(x.end().get_uint64_t()) + ")";
}
wi_t parse_wint(const Sx &x) {
  if (x.is_atom) return x.a == "top" ? wi_t::top() : wi_t::bottom();
  uint64_t w = pu64(x[0]);
  return wi_t(wrapint(pu64(x[1]), w), wrapint(pu64(x[2]), w));
}

z_lin_exp_t parse_lin(const Sx &x) {
  z_lin_exp_t e(z_number(x[1].a));
  for (size_t i = 2; i < x.size(); i++) e = e + z_lin_exp_t(z_number(x[i][0].a), var(vidx(x[i][1])));
  return e;
}
z_lin_cst_t parse_cst(const Sx &x) {
  z_lin_exp_t e = parse_lin(x[1]);
  const std::string &k = x[0].a;
  if (k == "le") return z_lin_cst_t(e, z_lin_cst_t::INEQUALITY);
  if (k == "lt") return z_lin_cst_t(e, z_lin_cst_t::STRICT_INEQUALITY);
  if (k == "eq") return z_lin_cst_t(e, z_lin_cst_t::EQUALITY);
  return z_lin_cst_t(e, z_lin_cst_t::DISEQUATION);
}
unsigned name_idx(const z_var &v) {
  std::string nm = v.name().str();
  return (unsigned)std::stoul(nm.substr(1));
}
std::string lin_str(const z_lin_exp_t &e) {
  std::ostringstream o;
  o << "(lin " << zs(e.constant());
  std::vector<std::pair<unsigned, std::string>> ts;
  for (auto it = e.begin(); it != e.end(); ++it) ts.push_back({name_idx(it->second), zs(it->first)});
  std::sort(ts.begin(), ts.end());
  for (auto &t : ts) o << " (" << t.second << " v" << t.first << ")";
  o << ")";
  return o.str();
}
std::string cst_str(const z_lin_cst_t &c) {
  const char *k = c.is_inequality() ? "le" : c.is_strict_inequality() ? "lt" : c.is_equality() ? "eq" : "ne";
  return std::string("(") + k + " " + lin_str(c.expression()) + ")";
}

std::string dump(Dom &d) {
  std::ostringstream o;
  bool b = d.is_bottom();
  o << (b ? 1 : 0) << " " << (d.is_top() ? 1 : 0) << " (b";
  if (!b) {
    // top is never stored, so the values that are not top are the bindings
    for (unsigned i = 0; i < NV; i++) {
      wi_t c = d.get_wrapped_interval(var(i));
      if (!c.is_top()) o << " (v" << i << " " << wis(c) << ")";
    }
  }
  o << ") (cs";
  auto sys = d.to_linear_constraint_system();
  std::vector<std::string> cs;
  for (auto it = sys.begin(); it != sys.end(); ++it) cs.push_back(cst_str(*it));
  std::sort(cs.begin(), cs.end());
  for (auto &s : cs) o << " " << s;
  o << ")";
  return o.str();
}

crab::domains::arith_operation_t aop(const std::string &s) {
  if (s == "add") return OP_ADDITION;
  if (s == "sub") return OP_SUBTRACTION;
  if (s == "mul") return OP_MULTIPLICATION;
  if (s == "sdiv") return OP_SDIV;
  if (s == "udiv") return OP_UDIV;
  if (s == "srem") return OP_SREM;
  return OP_UREM;
}
crab::domains::bitwise_operation_t bop(const std::string &s) {
  if (s == "and") return OP_AND;
  if (s == "or") return OP_OR;
  if (s == "xor") return OP_XOR;
  if (s == "shl") return OP_SHL;
  if (s == "lshr") return OP_LSHR;
  return OP_ASHR;
}

std::string eval(const Sx &q) {
  variable_factory_t vf;
  std::vector<z_var> vars;
  const Sx &ws = q[1];
  for (unsigned i = 0; i < NV; i++)
    vars.push_back(z_var(vf["v" + std::to_string(i)], crab::INT_TYPE, (unsigned)pu64(ws[1 + i])));
  VARS = &vars;
  std::vector<Dom> pool;
  for (unsigned i = 0; i < NP; i++) { Dom d; pool.push_back(d.make_top()); }
  const Sx &ops = q[2];
  std::ostringstream out;
  for (size_t oi = 1; oi < ops.size(); oi++) {
    const Sx &op = ops[oi];
    const std::string &k = op[0].a;
    unsigned d = std::stoul(op[1].a);
    std::string qa = "-";
    try {
      auto P = [&](size_t i) -> Dom & { return pool[std::stoul(op[i].a)]; };
      if (k == "top") pool[d].set_to_top();
      else if (k == "bot") pool[d].set_to_bottom();
      else if (k == "copy") { Dom c(P(2)); pool[d] = c; }
      else if (k == "assign") pool[d].assign(var(vidx(op[2])), parse_lin(op[3]));
      else if (k == "wassign") pool[d].weak_assign(var(vidx(op[2])), parse_lin(op[3]));
      else if (k == "arith") {
        if (op[5].a[0] == 'v') pool[d].apply(aop(op[2].a), var(vidx(op[3])), var(vidx(op[4])), var(vidx(op[5])));
        else pool[d].apply(aop(op[2].a), var(vidx(op[3])), var(vidx(op[4])), z_number(op[5].a));
      } else if (k == "bitw") {
        if (op[5].a[0] == 'v') pool[d].apply(bop(op[2].a), var(vidx(op[3])), var(vidx(op[4])), var(vidx(op[5])));
        else pool[d].apply(bop(op[2].a), var(vidx(op[3])), var(vidx(op[4])), z_number(op[5].a));
      } else if (k == "assume") {
        linear_constraint_system<z_number, varname_t> sys;
        for (size_t i = 2; i < op.size(); i++) sys += parse_cst(op[i]);
        pool[d] += sys;
      } else if (k == "forget1") pool[d] -= var(vidx(op[2]));
      else if (k == "forget") {
        std::vector<z_var> vs; for (size_t i = 2; i < op.size(); i++) vs.push_back(var(vidx(op[i]))); pool[d].forget(vs);
      } else if (k == "project") {
        std::vector<z_var> vs; for (size_t i = 2; i < op.size(); i++) vs.push_back(var(vidx(op[i]))); pool[d].project(vs);
      } else if (k == "rename") {
        std::vector<z_var> f, t;
        for (size_t i = 0; i < op[2].size(); i++) f.push_back(var(vidx(op[2][i])));
        for (size_t i = 0; i < op[3].size(); i++) t.push_back(var(vidx(op[3][i])));
        pool[d].rename(f, t);
      } else if (k == "expand") pool[d].expand(var(vidx(op[2])), var(vidx(op[3])));
      else if (k == "join") { Dom r = P(2) | P(3); pool[d] = r; }
      else if (k == "meet") { Dom r = P(2) & P(3); pool[d] = r; }
      else if (k == "widen") { Dom r = P(2) || P(3); pool[d] = r; }
      else if (k == "narrow") { Dom r = P(2) && P(3); pool[d] = r; }
      else if (k == "joineq") pool[d] |= P(2);
      else if (k == "meeteq") pool[d] &= P(2);
      else if (k == "setw") pool[d].set(var(vidx(op[2])), parse_wint(op[3]));
      else if (k == "setn") pool[d].set(var(vidx(op[2])), z_number(op[3].a));
      else if (k == "seti") pool[d].set(var(vidx(op[2])), z_interval(z_bound(z_number(op[3].a)), z_bound(z_number(op[4].a))));
      else if (k == "cast") {
        const std::string &c = op[2].a;
        pool[d].apply(c == "zext" ? OP_ZEXT : c == "sext" ? OP_SEXT : OP_TRUNC, var(vidx(op[3])), var(vidx(op[4])));
      } else if (k == "entails") qa = pool[d].entails(parse_cst(op[2])) ? "1" : "0";
      else if (k == "leq") qa = (pool[d] <= P(2)) ? "1" : "0";
      else if (k == "at") qa = ivs(pool[d].at(var(vidx(op[2]))));
      else { out << "(unknown-op)"; break; }
      out << "(s " << dump(pool[d]) << " " << qa << ") ";
    } catch (const crab::verif_error &) {
      out << "(err)";
      break;
    }
  }
  return out.str();
}

// GENERATOR
std::string V(unsigned i) { return "v" + std::to_string(i); }

struct G {
  Rng &r;
  unsigned W[NV];
  unsigned nv; // variables are mostly drawn among v0..v(nv-1)
  unsigned any() { return r.below(4) ? r.below(nv) : r.below(NV); }
  // a variable of the same declared width as v
  unsigned same(unsigned v) {
    std::vector<unsigned> c;
    for (unsigned i = 0; i < NV; i++) if (W[i] == W[v]) c.push_back(i);
    return c[r.below(c.size())];
  }
};

z_number rnd_bits(Rng &r, unsigned w) { // uniform in [0, 2^w)
  uint64_t x = ((uint64_t)r.below(1ull << 32) << 32) | (uint64_t)r.below(1ull << 32);
  if (w < 64) x &= ((1ull << w) - 1);
  return z_number(std::to_string((unsigned long long)x));
}

// a constant for width w: in the signed range if signed_only, else also unsigned spellings / wide
std::string gen_const(Rng &r, unsigned w, bool signed_only) {
  // signed_only (constants of constraints): the constant `-c` of the constraint `e + c <= 0` must
  // fit the signed range too, so `c` ranges over [-(2^(w-1) - 1), 2^(w-1) - 1]
  z_number smax = zpow2(w - 1) - z_number(1), smin = -zpow2(w - 1), umax = zpow2(w) - z_number(1);
  if (signed_only) smin = -smax;
  auto clampS = [&](z_number z) { // into the signed range
    if (z > smax) return smax;
    if (z < smin) return smin;
    return z;
  };
  switch (r.below(signed_only ? 14 : 20)) {
  case 0: case 1: return "0";
  case 2: return zs(clampS(z_number(1)));
  case 3: return "-1";
  case 4: case 5: case 6: return zs(clampS(z_number((int64_t)r.range(-6, 6))));
  case 7: return zs(smax);
  case 8: return zs(smin);
  case 9: return zs(clampS(smax - z_number((int64_t)r.below(3))));
  case 10: return zs(clampS(smin + z_number((int64_t)r.below(3))));
  case 11: return zs(clampS(z_number((int64_t)r.range(-130, 130))));
  case 12: case 13: { z_number x = rnd_bits(r, w); return zs(clampS(x > smax ? x - zpow2(w) : x)); }
  case 14: return zs(umax);
  case 15: return zs(zpow2(w - 1));
  case 16: return zs(rnd_bits(r, w));
  case 17: return zs(umax + z_number((int64_t)r.range(-1, 2)));
  case 18: return zs(gen_z(r));
  default: return zs(z_number((int64_t)r.range(-300, 300)));
  }
}

std::string gen_coef(Rng &r, bool small) {
  switch (r.below(small ? 8 : 10)) {
  case 0: case 1: case 2: case 3: return "1";
  case 4: case 5: return "-1";
  case 6: return std::to_string(r.range(-3, 3));
  case 7: return "2";
  case 8: return std::to_string(r.range(-50, 50));
  default: return zs(gen_z(r));
  }
}

// linear expression over variables of the width of `v0`
std::string gen_lin(G &g, unsigned v0, unsigned maxterms, bool cstr) {
  unsigned w = g.W[v0];
  std::string s = "(lin " + gen_const(g.r, w, cstr);
  unsigned k = g.r.below(maxterms + 1);
  std::vector<bool> used(NV, false);
  for (unsigned i = 0; i < k; i++) {
    unsigned v = i == 0 ? v0 : g.same(v0);
    if (used[v]) continue;
    used[v] = true;
    s += " (" + ((cstr && w == 1) ? std::string(g.r.coin() ? "1" : "-1") : gen_coef(g.r, cstr)) + " " + V(v) + ")";
  }
  return s + ")";
}

std::string gen_cst(G &g) {
  Rng &r = g.r;
  static const char *K[] = {"le", "le", "le", "lt", "lt", "eq", "eq", "ne", "ne"};
  std::string k = K[r.below(9)];
  unsigned x = g.any();
  unsigned w = g.W[x];
  unsigned shape = r.below(9);
  if (shape <= 2) // ±x ⋈ c
    return "(" + k + " (lin " + gen_const(r, w, true) + " (" + (r.coin() ? "1" : "-1") + " " + V(x) + ")))";
  if (shape == 3 && w > 1) // k*x ⋈ c
    return "(" + k + " (lin " + gen_const(r, w, true) + " (" + std::to_string(r.range(-4, 4)) + " " + V(x) + ")))";
  if (shape <= 6) { // a*x + b*y ⋈ c
    unsigned y = g.same(x);
    if (y == x) return "(" + k + " (lin " + gen_const(r, w, true) + " (1 " + V(x) + ")))";
    std::string c = r.below(3) ? "0" : gen_const(r, w, true);
    std::string ca = (w == 1 || r.below(3)) ? "1" : std::to_string(r.range(-2, 2));
    std::string cb = (w == 1 || r.below(3)) ? "-1" : std::to_string(r.range(-2, 2));
    return "(" + k + " (lin " + c + " (" + ca + " " + V(x) + ") (" + cb + " " + V(y) + ")))";
  }
  if (shape == 7 && r.below(6) == 0) { // ill typed (ignored by operator+=)
    unsigned y = r.below(NV);
    return "(" + k + " (lin 0 (1 " + V(x) + ") (-1 " + V(y) + ")))";
  }
  return "(" + k + " " + gen_lin(g, x, 3, true) + ")";
}

std::string gen_wint(Rng &r, unsigned w) {
  if (r.below(14) == 0) return "top";
  if (r.below(30) == 0) return "bot";
  z_number m = zpow2(w);
  auto pt = [&]() -> z_number {
    switch (r.below(8)) {
    case 0: return z_number(0);
    case 1: return zpow2(w - 1) - z_number((int64_t)r.below(3));       // around the signed limit
    case 2: return zpow2(w - 1) + z_number((int64_t)r.below(2));
    case 3: return m - z_number((int64_t)(1 + r.below(3)));              // around the unsigned limit
    case 4: case 5: return z_number((int64_t)r.below(12));
    default: return rnd_bits(r, w);
    }
  };
  auto norm = [&](z_number z) { z = z % m; if (z < z_number(0)) z = z + m; return z; };
  z_number s = norm(pt());
  z_number e = r.below(3) == 0 ? norm(pt()) : norm(s + z_number((int64_t)r.below(r.coin() ? 4 : 40)));
  return "(" + std::to_string(w) + " " + zs(s) + " " + zs(e) + ")";
}

std::string gen(Rng &r, const Args &a) {
  bool thorough = a.tier == "thorough";
  unsigned len = 4 + r.below(thorough ? 50 : 22);
  G g{r, {}, 0};
  static const unsigned LAY[6][NV] = {{8, 8, 8, 8, 32, 32, 64, 1},  {32, 32, 32, 64, 64, 8, 8, 1}, {64, 64, 64, 8, 8, 32, 1, 1},
                                      {1, 1, 1, 8, 8, 8, 32, 64},   {8, 8, 8, 32, 32, 32, 64, 64}, {32, 32, 8, 8, 64, 64, 1, 1}};
  static const unsigned WS[4] = {1, 8, 32, 64};
  unsigned lay = r.below(9);
  for (unsigned i = 0; i < NV; i++) g.W[i] = lay < 6 ? LAY[lay][i] : WS[(lay + r.below(lay == 8 ? 4 : 1)) % 4];
  if (lay >= 6) { unsigned w = WS[r.below(4)]; for (unsigned i = 0; i < NV; i++) g.W[i] = w; }
  g.nv = r.below(4) == 0 ? NV : 3 + r.below(3);
  std::ostringstream o;
  o << "(wdom.hist (ws";
  for (unsigned i = 0; i < NV; i++) o << " " << g.W[i];
  o << ") (ops";
  static const char *AOP[] = {"add", "sub", "mul", "sdiv", "udiv", "srem", "urem"};
  static const char *BOP[] = {"and", "or", "xor", "shl", "lshr", "ashr"};
  unsigned profile = r.below(4); // 0 mixed, 1 constraint heavy, 2 assignment/arith heavy, 3 lattice heavy
  for (unsigned d = 0; d < NP; d++) {
    if (r.below(5) == 0) continue;
    unsigned n = 1 + r.below(g.nv);
    for (unsigned j = 0; j < n; j++) {
      unsigned v = r.below(g.nv);
      switch (r.below(5)) {
      case 0: o << " (setn " << d << " " << V(v) << " " << gen_const(r, g.W[v], false) << ")"; break;
      case 1: o << " (assume " << d << " " << gen_cst(g) << ")"; break;
      default: o << " (setw " << d << " " << V(v) << " " << gen_wint(r, g.W[v]) << ")"; break;
      }
    }
  }
  for (unsigned i = 0; i < len; i++) {
    unsigned d = r.below(NP);
    unsigned k = r.below(100);
    if (profile == 1) k = r.below(3) ? 30 + r.below(25) : k;
    if (profile == 2) k = r.below(3) ? r.below(30) : k;
    if (profile == 3) k = r.below(3) ? 66 + r.below(24) : k;
    unsigned x = g.any();
    unsigned w = g.W[x];
    if (k < 10) o << " (assign " << d << " " << V(g.same(x)) << " " << gen_lin(g, x, 3, false) << ")";
    else if (k < 12) o << " (wassign " << d << " " << V(g.same(x)) << " " << gen_lin(g, x, 2, false) << ")";
    else if (k < 23) {
      std::string z = r.coin() ? V(g.same(x)) : gen_const(r, w, false);
      o << " (arith " << d << " " << AOP[r.below(r.below(3) ? 4 : 7)] << " " << V(g.same(x)) << " " << V(x) << " " << z << ")";
    } else if (k < 30) {
      std::string z = r.coin() ? V(g.same(x)) : std::to_string(r.below(12) ? r.range(0, 9) : r.range(-1, 70));
      o << " (bitw " << d << " " << BOP[r.below(6)] << " " << V(g.same(x)) << " " << V(x) << " " << z << ")";
    } else if (k < 50) {
      o << " (assume " << d;
      unsigned n = 1;
      switch (r.below(8)) { case 0: n = 2; break; case 1: n = 3; break; case 2: n = 4 + r.below(2); break; default: break; }
      for (unsigned j = 0; j < n; j++) o << " " << gen_cst(g);
      o << ")";
    } else if (k < 54) o << " (entails " << d << " " << gen_cst(g) << ")";
    else if (k < 57) o << " (" << (r.coin() ? "forget " : "forget1 ") << d << " " << V(x) << ")";
    else if (k < 58) {
      o << " (forget " << d;
      unsigned n = r.below(4);
      for (unsigned j = 0; j < n; j++) o << " " << V(g.any());
      o << ")";
    } else if (k < 61) {
      o << " (project " << d;
      unsigned n = r.below(NV + 1);
      for (unsigned j = 0; j < n; j++) o << " " << V(r.below(NV));
      o << ")";
    } else if (k < 64) {
      unsigned y = g.same(x);
      if (y != x) {
        if (r.below(4)) o << " (forget1 " << d << " " << V(y) << ")";
        if (r.coin()) o << " (expand " << d << " " << V(x) << " " << V(y) << ")";
        else o << " (rename " << d << " (" << V(x) << ") (" << V(y) << "))";
      } else o << " (forget1 " << d << " " << V(x) << ")";
    } else if (k < 65) { // rename of two variables (sometimes a length mismatch)
      unsigned y = g.same(x), x2 = g.any(), y2 = g.same(x2);
      if (x != x2 && y != y2 && y != x2 && y2 != x && x != y && x2 != y2) {
        o << " (forget " << d << " " << V(y) << " " << V(y2) << ")";
        o << " (rename " << d << " (" << V(x) << " " << V(x2) << ") (" << V(y) << " " << V(y2) << (r.below(20) == 0 ? " v0" : "") << "))";
      } else o << " (top " << d << ")";
    } else if (k < 72) o << " (join " << d << " " << r.below(NP) << " " << r.below(NP) << ")";
    else if (k < 77) o << " (meet " << d << " " << r.below(NP) << " " << r.below(NP) << ")";
    else if (k < 83) o << " (widen " << d << " " << r.below(NP) << " " << r.below(NP) << ")";
    else if (k < 86) o << " (narrow " << d << " " << r.below(NP) << " " << r.below(NP) << ")";
    else if (k < 87) o << " (" << (r.coin() ? "joineq " : "meeteq ") << d << " " << r.below(NP) << ")";
    else if (k < 89) o << " (leq " << d << " " << r.below(NP) << ")";
    else if (k < 90) o << " (at " << d << " " << V(x) << ")";
    else if (k < 92) o << " (copy " << d << " " << r.below(NP) << ")";
    else if (k < 94) o << " (setw " << d << " " << V(x) << " " << gen_wint(r, w) << ")";
    else if (k < 95) o << " (setn " << d << " " << V(x) << " " << gen_const(r, w, false) << ")";
    else if (k < 96) {
      z_number lb(gen_const(r, w, true)), ub = lb + z_number((int64_t)r.below(r.coin() ? 5 : 300));
      o << " (seti " << d << " " << V(x) << " " << zs(lb) << " " << zs(ub) << ")";
    } else if (k < 99) {
      // casts between widths: mostly legal directions
      unsigned y = r.below(NV);
      const char *c = g.W[x] > g.W[y] ? (r.coin() ? "zext" : "sext") : g.W[x] < g.W[y] ? "trunc" : (r.below(3) == 0 ? "zext" : r.coin() ? "sext" : "trunc");
      if (r.below(25) == 0) c = r.coin() ? "trunc" : "zext";
      o << " (cast " << d << " " << c << " " << V(x) << " " << V(y) << ")";
    } else o << " (" << (r.coin() ? "top " : "bot ") << d << ")";
  }
  o << "))";
  return o.str();
}

} // namespace

int main(int argc, char **argv) { return run_harness(argc, argv, gen, eval); }
