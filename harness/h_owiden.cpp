// Exact tie of the split-octagon widening model (lean/CrabModel/Dom/OctWiden.lean, theorems
// lean/CrabProofs/Props/C05Oct.lean) to the real code: widening chains of ONE split_oct_domain
// instance (selected with -DVDOM=<id>: 8 split-oct-safe, 27 split-oct-int64)
// whose operands are given by in-language constraints only.  The Lean driver
// (lean/Driver/OWidenH.lean, tag `ow`) replays every step with the model's widening.
//
// request : (ow.chain <dom> <mode> <nvars> (x0 <cst> ...) (ys (y <cst> ...) (y <cst> ...) ...))
//   <dom>  ::= DOMNAME below; a request for another domain is answered `otherdom` (skipped)
//   <mode> ::= plain          x_{i+1} = x_i || y_i
//            | (thr t ...)    x_{i+1} = x_i.widening_thresholds(y_i, {t ...})
//            | probe          as plain, but between the steps the stored x_i is copied and read through its
//                             const interface (operator<= both ways, to_linear_constraint_system, at(v),
//                             is_bottom, is_top, write) and operator[] is called on the COPY: none of this
//                             may change the stored value
//            | index          as plain, but the NON-const operator[] is called on the stored x_i itself before
//                             each widening: it calls normalize() IN PLACE; the stored left operand after that
//                             is printed too ((xl <raw>)), so the widening is still compared entrywise
//            | plainj, probej, indexj : the same with `oct.widen_restabilize = false` for the duration of the
//                             chain (normalize() runs close_johnson instead of close_after_widen)
//   <cst>  ::= (b v k) v <= k | (l v k) v >= k | (d v u k) v - u <= k | (s v u k) v + u <= k | (n v u k) -v - u <= k
//   x0 and every y_i are built from top by `+=` of the constraints in the given order; an element
//   (yw (a <cst> ...) (b <cst> ...)) of `ys` stands for y_i = build(a) || build(b) (a right operand that needs
//   normalisation); its step further carries (ya <raw>) (yb <raw>) and (yn <raw>) = a normalised copy of y_i.
// result  : (x0 <raw>) (yb <bits>) (cov <bits>) (st <bits>) (step (y <raw>) [(ya <raw>) (yb <raw>) (yn <raw>)] [(xl <raw>)] (r <raw>) (d <is_bottom> (cs <lc> ...))) ...
//   bit i of  yb : y_i.is_bottom()    cov : y_i <= x_i (the test on which the iterator stops)
//             st : x_{i+1} <= x_i (stationary step)
//   <raw> ::= bot | (g (vm (<var> <pos-vertex> <neg-vertex>) ...) (un <vertex> ...) (es (<s> <d> <w>) ...))
//     the private representation of the value AS STORED (no copy is normalised): m_vert_map, m_unstable and
//     every edge s -> d of weight w of m_graph (meaning  val(d) - val(s) <= w, val(pos v) = v, val(neg v) = -v),
//     read through `#define private public` (access control only; the class is a header template that this
//     translation unit instantiates itself, so the layout is the one this unit compiles).
//   (d ..): x_{i+1}.is_bottom() and the linear constraint system of a COPY of x_{i+1} (to_linear_constraint_system
//     normalises the copy); <lc> ::= (le c (a v) ...) | (eq c (a v) ...) meaning sum a*v + c <= 0 (= 0),
//     (false) for a contradiction, (true) for a tautology.
#include <algorithm>
#include <cstdint>
#include <map>
#include <set>
#include <sstream>
#include <string>
#include <vector>

#include "common.hpp"
#include "crab_lang.hpp"

#include <crab/domains/abstract_domain_params.hpp>
#include <crab/domains/split_dbm.hpp>
#include <crab/fixpoint/thresholds.hpp>

#define private public
#define protected public
#include <crab/domains/split_oct.hpp>
#undef private
#undef protected

using namespace vh;
using namespace crab::cfg_impl;
using namespace crab::domains;
using namespace ikos;

#ifndef VDOM
#define VDOM 8
#endif

using z_dbm_graph_t = DBM_impl::DefaultParams<z_number, DBM_impl::GraphRep::adapt_ss>;
using z_dbm_graph_safe_t = DBM_impl::SafeInt64DefaultParams<z_number, DBM_impl::GraphRep::adapt_ss>;

#if VDOM == 8
using Dom = split_oct_domain<z_number, varname_t, z_dbm_graph_safe_t>;
#define DOMNAME "split-oct-safe"
#elif VDOM == 27
using Dom = split_oct_domain<z_number, varname_t, z_dbm_graph_t>;
#define DOMNAME "split-oct-int64"
#else
#error "h_owiden: VDOM must be 8 or 27 (the bignum instance, 23, does not compile: integer_tightening casts Wt to float)"
#endif

namespace {

const unsigned NVMAX = 6;

struct Env {
  variable_factory_t vf;
  std::vector<z_var> vars;
  Env() {
    for (unsigned i = 0; i < NVMAX; i++) vars.push_back(z_var(vf["v" + std::to_string(i)], crab::INT_TYPE, 32));
  }
};

std::string I(int64_t k) { return std::to_string(k); }

// ------------------------------------------------------------------ evaluation

z_lin_cst_t mk_cst(Env &E, const Sx &c) {
  const std::string &k = c[0].a;
  z_var v = E.vars.at(std::stoul(c[1].a));
  if (k == "b") return z_lin_cst_t(z_lin_exp_t(v) <= z_number(c[2].a));
  if (k == "l") return z_lin_cst_t(z_lin_exp_t(v) >= z_number(c[2].a));
  z_var u = E.vars.at(std::stoul(c[2].a));
  z_number kk(c[3].a);
  if (k == "d") return z_lin_cst_t(z_lin_exp_t(v) - z_lin_exp_t(u) <= kk);
  if (k == "s") return z_lin_cst_t(z_lin_exp_t(v) + z_lin_exp_t(u) <= kk);
  return z_lin_cst_t(z_lin_exp_t(0) - z_lin_exp_t(v) - z_lin_exp_t(u) <= kk);
}

// from top, by `+=` of the constraints in order (the list starts at index 1 of `l`)
Dom build(Env &E, const Sx &l) {
  Dom d;
  d.set_to_top();
  for (size_t i = 1; i < l.size(); i++) d += mk_cst(E, l[i]);
  return d;
}

std::string lc_str(const z_lin_cst_t &c) {
  if (c.is_contradiction()) return "(false)";
  if (c.is_tautology()) return "(true)";
  const char *k = c.is_inequality() ? "le" : c.is_strict_inequality() ? "lt" : c.is_equality() ? "eq" : "ne";
  const z_lin_exp_t &e = c.expression();
  std::vector<std::pair<unsigned, std::string>> ts;
  for (auto it = e.begin(); it != e.end(); ++it) {
    std::string nm = it->second.name().str();
    ts.push_back({(unsigned)std::stoul(nm.substr(1)), zs(it->first)});
  }
  std::sort(ts.begin(), ts.end());
  std::string o = std::string("(") + k + " " + zs(e.constant());
  for (auto &t : ts) o += " (" + t.second + " " + I(t.first) + ")";
  return o + ")";
}

std::string dump(const Dom &x) {
  Dom c(x); // a copy: the stored value is not touched
  std::string o = std::string("(d ") + (c.is_bottom() ? "1" : "0") + " (cs";
  auto sys = c.to_linear_constraint_system();
  std::vector<std::string> ls;
  for (auto it = sys.begin(); it != sys.end(); ++it) ls.push_back(lc_str(*it));
  std::sort(ls.begin(), ls.end());
  for (auto &s : ls) o += " " + s;
  return o + "))";
}

template <class W> std::string wstr(const W &w) {
  crab::crab_string_os os;
  os << w;
  return os.str();
}

// the private representation as stored
std::string raw(const Dom &x) {
  if (x.m_is_bottom) return "bot";
  std::vector<std::pair<unsigned, std::string>> vm;
  for (auto &p : x.m_vert_map) {
    unsigned vi = (unsigned)std::stoul(p.first.name().str().substr(1));
    vm.push_back({vi, "(" + I(vi) + " " + I(p.second.first) + " " + I(p.second.second) + ")"});
  }
  std::sort(vm.begin(), vm.end());
  std::string o = "(g (vm";
  for (auto &p : vm) o += " " + p.second;
  o += ") (un";
  std::set<uint64_t> un;
  for (auto v : x.m_unstable) un.insert((uint64_t)v);
  for (auto v : un) o += " " + I((int64_t)v);
  o += ") (es";
  std::vector<std::pair<std::pair<uint64_t, uint64_t>, std::string>> es;
  for (auto s : x.m_graph.verts())
    for (auto e : x.m_graph.e_succs(s)) es.push_back({{(uint64_t)s, (uint64_t)e.vert}, wstr(e.val)});
  std::sort(es.begin(), es.end());
  for (auto &e : es) o += " (" + I((int64_t)e.first.first) + " " + I((int64_t)e.first.second) + " " + e.second + ")";
  return o + "))";
}

// const reads of the stored value + mutating reads of a copy
void probe(Env &E, const Dom &x, const Dom &y, unsigned nv) {
  Dom c(x);
  volatile bool sink = (y <= x);
  sink = (x <= y);
  sink = x.is_bottom();
  sink = x.is_top();
  (void)sink;
  auto sys = x.to_linear_constraint_system();
  (void)sys;
  for (unsigned i = 0; i < nv; i++) {
    z_interval a = x.at(E.vars[i]);
    z_interval b = c[E.vars[i]]; // non-const operator[] on the copy
    (void)a; (void)b;
  }
  crab::crab_string_os os;
  os << x;
}

std::string eval(const Sx &q) {
  const std::string &head = q[0].a;
  if (head != "ow.chain") return "unknown";
  if (q[1].a != DOMNAME) return "otherdom";
  Env E;
  const Sx &mode = q[2];
  std::string mk = mode.is_atom ? mode.a : mode[0].a;
  unsigned nv = std::stoul(q[3].a);
  crab::thresholds<z_number> ts;
  if (mk == "thr")
    for (size_t i = 1; i < mode.size(); i++) ts.add(z_bound(z_number(mode[i].a)));
  // modes ending in `j`: normalize() runs close_johnson instead of close_after_widen
  bool johnson = mk.size() > 1 && mk.back() == 'j';
  if (johnson) mk.pop_back();
  struct Restore {
    bool on;
    ~Restore() { if (on) crab_domain_params_man::get().set_param("oct.widen_restabilize", "true"); }
  } restore{johnson};
  if (johnson) crab_domain_params_man::get().set_param("oct.widen_restabilize", "false");
  Dom x = build(E, q[4]);
  const Sx &ys = q[5];
  std::string yb, cov, st, ds;
  std::string out = "(x0 " + raw(x) + ")";
  for (size_t i = 1; i < ys.size(); i++) {
    // (y <cst> ...) : built by `+=`;  (yw (a <cst> ...) (b <cst> ...)) : y = build(a) || build(b), a value whose
    // m_unstable is not empty, so that `operator||` / `operator<=` normalise a copy of it
    Dom y;
    std::string yx;
    if (ys[i][0].a == "yw") {
      Dom a = build(E, ys[i][1]), b = build(E, ys[i][2]);
      y = a || b;
      Dom yn(y);
      yn.normalize();
      yx = " (ya " + raw(a) + ") (yb " + raw(b) + ") (yn " + raw(yn) + ")";
    } else
      y = build(E, ys[i]);
    yb += y.is_bottom() ? '1' : '0';
    if (mk == "probe") probe(E, x, y, nv);
    if (mk == "index")
      for (unsigned v = 0; v < nv; v++) { z_interval a = x[E.vars[v]]; (void)a; }
    std::string xl = (mk == "index") ? " (xl " + raw(x) + ")" : "";
    cov += (y <= x) ? '1' : '0';
    Dom xn = (mk == "thr") ? x.widening_thresholds(y, ts) : (x || y);
    st += (xn <= x) ? '1' : '0';
    ds += " (step (y " + raw(y) + ")" + yx + xl + " (r " + raw(xn) + ") " + dump(xn) + ")";
    x = xn;
  }
  if (yb.empty()) { yb = "-"; cov = "-"; st = "-"; }
  return out + " (yb " + yb + ") (cov " + cov + ") (st " + st + ")" + ds;
}

// ------------------------------------------------------------------ generation

struct C {
  char k; // 'b' v<=c, 'l' v>=c, 'd' v-u<=c, 's' v+u<=c, 'n' -v-u<=c
  int v, u;
  int64_t c;
};

std::string cs(const C &c) {
  if (c.k == 'b' || c.k == 'l') return std::string("(") + c.k + " " + I(c.v) + " " + I(c.c) + ")";
  return std::string("(") + c.k + " " + I(c.v) + " " + I(c.u) + " " + I(c.c) + ")";
}

std::string cl(const char *hd, const std::vector<C> &v) {
  std::string o = std::string("(") + hd;
  for (auto &c : v) o += " " + cs(c);
  return o + ")";
}

void shuffle(Rng &r, std::vector<C> &v) {
  for (size_t i = v.size(); i > 1; i--) std::swap(v[i - 1], v[r.below(i)]);
}

// value of the left-hand side of a constraint at the point p
int64_t lhs(const C &c, const std::vector<int64_t> &p) {
  switch (c.k) {
  case 'b': return p[c.v];
  case 'l': return -p[c.v];
  case 'd': return p[c.v] - p[c.u];
  case 's': return p[c.v] + p[c.u];
  default: return -p[c.v] - p[c.u];
  }
}

// weight form: every constraint is  lhs <= w  ('l' v >= c is  -v <= -c)
int64_t wof(const C &c) { return c.k == 'l' ? -c.c : c.c; }
void setw(C &c, int64_t w) { c.c = c.k == 'l' ? -w : w; }

// a constraint satisfied by the point p with slack s (s < 0: violated)
C around(Rng &r, const std::vector<int64_t> &p, unsigned n, int64_t s) {
  static const char kinds[] = {'b', 'l', 'd', 's', 'n', 'd'};
  char k = kinds[r.below(n >= 2 ? 6 : 2)];
  int v = r.below(n), u = 0;
  if (k != 'b' && k != 'l') {
    u = r.below(n - 1);
    if (u >= v) u++;
  }
  C c{k, v, u, 0};
  setw(c, lhs(c, p) + s);
  return c;
}

std::string gen_mode(Rng &r) {
  unsigned k = r.below(20);
  const char *j = r.coin(1, 6) ? "j" : "";
  if (k < 11) return std::string("plain") + j;
  if (k < 14) {
    std::string o = "(thr";
    unsigned m = 1 + r.below(4);
    for (unsigned i = 0; i < m; i++) o += " " + I(r.range(-20, 40));
    return o + ")";
  }
  if (k < 19) return std::string("probe") + j;
  return std::string("index") + j;
}

std::string finish(Rng &r, unsigned n, const std::vector<C> &x0, const std::vector<std::vector<C>> &ys, int64_t scale) {
  auto sc = [&](std::vector<C> v) { for (auto &c : v) c.c *= scale; return v; };
  std::string o = "(ow.chain " DOMNAME " " + gen_mode(r) + " " + I(n) + " " + cl("x0", sc(x0)) + " (ys";
  for (size_t i = 0; i < ys.size(); i++) {
    if (i > 0 && r.coin(1, 7)) o += " (yw " + cl("a", sc(ys[i - 1])) + " " + cl("b", sc(ys[i])) + ")";
    else o += " " + cl("y", sc(ys[i]));
  }
  return o + "))";
}

// two (or three) counters: v0 counts up, v1 follows it (difference) or counts down against it (sum);
// the bounds are raised alternately, one per step
std::string gen_counters(Rng &r) {
  unsigned n = 2 + r.below(3);
  unsigned m = 2 + (n > 2 ? r.below(2) : 0); // counters v0..v(m-1), the others carry fixed bounds
  int64_t w = r.range(0, 2), tot = r.range(4, 12);
  std::vector<bool> down(m, false);
  for (unsigned i = 1; i < m; i++) down[i] = r.coin();
  std::vector<C> rel;
  rel.push_back(C{'l', 0, 0, 0});
  for (unsigned i = 1; i < m; i++) {
    if (down[i]) { // v0 + vi in [tot - w, tot]
      rel.push_back(C{'s', 0, (int)i, tot});
      rel.push_back(C{'n', 0, (int)i, w - tot});
    } else { // vi <= v0 <= vi + w
      rel.push_back(C{'d', (int)i, 0, 0});
      rel.push_back(C{'d', 0, (int)i, w});
      if (r.coin(1, 3)) rel.push_back(C{'l', (int)i, 0, -w});
    }
  }
  for (unsigned i = m; i < n; i++) {
    rel.push_back(C{'b', (int)i, 0, r.range(0, 9)});
    if (r.coin()) rel.push_back(C{'l', (int)i, 0, r.range(-9, 0)});
    if (r.coin(1, 3)) rel.push_back(C{r.coin() ? 's' : 'd', (int)i, 0, r.range(8, 20)});
  }
  std::vector<int64_t> hi(m, 0); // v0 <= hi[0]; up-followers vi <= hi[i]; down-followers vi >= tot - w - hi[i]
  for (auto &h : hi) h = r.range(0, 1);
  bool first = r.coin(); // relations before the bounds, or after them (implied ones are then skipped by `+=`)
  auto mk = [&]() {
    std::vector<C> b, v;
    for (unsigned i = 0; i < m; i++) {
      if (i > 0 && down[i]) b.push_back(C{'l', (int)i, 0, tot - w - hi[i]});
      else b.push_back(C{'b', (int)i, 0, hi[i]});
    }
    if (first) { v = rel; v.insert(v.end(), b.begin(), b.end()); }
    else { v = b; v.insert(v.end(), rel.begin(), rel.end()); }
    if (r.coin(1, 4)) shuffle(r, v);
    return v;
  };
  std::vector<C> x0 = mk();
  std::vector<std::vector<C>> ys;
  unsigned steps = 3 + r.below(6), who = r.below(m);
  for (unsigned i = 0; i < steps; i++) {
    hi[who] += r.range(1, 2);
    who = (who + 1) % m;
    ys.push_back(mk());
  }
  return finish(r, n, x0, ys, 1);
}

// relations that the left operand only knows through its unary bounds and the right operand states
// explicitly (the second `split_widen_rels` pass), and conversely
std::string gen_implicit(Rng &r) {
  unsigned n = 2 + r.below(3);
  std::vector<int64_t> lo(n), hi(n);
  for (unsigned v = 0; v < n; v++) { lo[v] = r.range(-5, 3); hi[v] = lo[v] + r.range(0, 8); }
  auto bounds = [&](std::vector<C> &out, unsigned drop) {
    for (unsigned v = 0; v < n; v++) {
      if (drop != 2 * v) out.push_back(C{'b', (int)v, 0, hi[v]});
      if (drop != 2 * v + 1) out.push_back(C{'l', (int)v, 0, lo[v]});
    }
  };
  auto relw = [&](C c, int64_t slack) { // weight relative to what the bounds imply
    std::vector<int64_t> top(n);
    int64_t m;
    switch (c.k) {
    case 'd': m = hi[c.v] - lo[c.u]; break;
    case 's': m = hi[c.v] + hi[c.u]; break;
    default: m = -lo[c.v] - lo[c.u]; break;
    }
    c.c = m + slack;
    return c;
  };
  auto anyrel = [&]() {
    static const char kinds[] = {'d', 's', 'n'};
    int v = r.below(n), u = r.below(n - 1);
    if (u >= v) u++;
    return C{kinds[r.below(3)], v, u, 0};
  };
  std::vector<C> rels;
  unsigned nr = 1 + r.below(n + 1);
  for (unsigned i = 0; i < nr; i++) rels.push_back(anyrel());
  std::vector<int64_t> sl(nr);
  for (auto &s : sl) s = r.range(-3, 2);
  auto mk = [&](bool relfirst, unsigned drop, unsigned skip) {
    std::vector<C> v, b;
    bounds(b, drop);
    std::vector<C> rr;
    for (unsigned i = 0; i < nr; i++)
      if (i != skip) rr.push_back(relw(rels[i], sl[i]));
    if (relfirst) { v = rr; v.insert(v.end(), b.begin(), b.end()); }
    else { v = b; v.insert(v.end(), rr.begin(), rr.end()); }
    return v;
  };
  std::vector<C> x0 = mk(r.coin(), 99, r.coin() ? r.below(nr) : 99);
  std::vector<std::vector<C>> ys;
  unsigned steps = 3 + r.below(6);
  for (unsigned i = 0; i < steps; i++) {
    unsigned what = r.below(10);
    if (what < 4) sl[r.below(nr)] += r.range(1, 3);           // a relation is relaxed
    else if (what < 6) { unsigned v = r.below(n); if (r.coin()) hi[v] += r.range(1, 3); else lo[v] -= r.range(1, 3); }
    else if (what < 7) sl[r.below(nr)] -= r.range(1, 2);      // a relation is tightened
    ys.push_back(mk(r.coin(2, 3), r.coin(1, 8) ? r.below(2 * n) : 99, r.coin(1, 6) ? r.below(nr) : 99));
  }
  return finish(r, n, x0, ys, 1);
}

// one constant moves per step (cumulative), sometimes a constraint disappears
std::string gen_onemove(Rng &r) {
  unsigned n = 2 + r.below(3);
  std::vector<int64_t> p(n);
  for (auto &a : p) a = r.range(-6, 6);
  std::vector<C> base;
  for (unsigned v = 0; v < n; v++) {
    if (r.coin(3, 4)) base.push_back(C{'b', (int)v, 0, p[v] + r.range(0, 4)});
    if (r.coin(3, 4)) base.push_back(C{'l', (int)v, 0, p[v] - r.range(0, 4)});
  }
  unsigned nd = 1 + r.below(n + 2);
  for (unsigned i = 0; i < nd; i++) {
    C c = around(r, p, n, r.range(0, 3));
    base.push_back(c);
  }
  shuffle(r, base);
  std::vector<C> x0 = base, cur = base;
  std::vector<std::vector<C>> ys;
  unsigned steps = 3 + r.below(6);
  for (unsigned i = 0; i < steps; i++) {
    unsigned moves = r.coin(1, 4) ? 2 : 1;
    for (unsigned j = 0; j < moves && !cur.empty(); j++) {
      unsigned t = r.below(cur.size());
      if (r.coin(1, 8)) cur.erase(cur.begin() + t);
      else setw(cur[t], wof(cur[t]) + r.range(1, 4));
    }
    std::vector<C> y = cur;
    if (r.coin(1, 4)) shuffle(r, y);
    ys.push_back(y);
  }
  return finish(r, n, x0, ys, r.coin(1, 12) ? 1000 : 1);
}

// loop-like: the start and the start translated by i*dv (hull, constraint by constraint)
std::string gen_translate(Rng &r) {
  unsigned n = 2 + r.below(3);
  std::vector<int64_t> p(n), dv(n);
  for (auto &a : p) a = r.range(-5, 5);
  for (auto &a : dv) a = r.coin() ? r.range(-2, 2) : 0;
  std::vector<C> base;
  unsigned nc = n + 1 + r.below(n + 2);
  for (unsigned i = 0; i < nc; i++) base.push_back(around(r, p, n, r.range(0, 3)));
  std::vector<C> x0 = base;
  std::vector<std::vector<C>> ys;
  unsigned steps = 3 + r.below(6);
  for (unsigned i = 1; i <= steps; i++) {
    std::vector<C> y;
    for (auto c : base) {
      int64_t sh = lhs(c, dv) * (int64_t)i;
      if (sh > 0) setw(c, wof(c) + sh);
      y.push_back(c);
    }
    if (r.coin(1, 5)) shuffle(r, y);
    ys.push_back(y);
  }
  return finish(r, n, x0, ys, 1);
}

// independent random values around a drifting point; sometimes infeasible
std::string gen_random(Rng &r) {
  unsigned n = 2 + r.below(3);
  std::vector<int64_t> p(n);
  for (auto &a : p) a = r.range(-6, 6);
  auto val = [&](unsigned lo, unsigned hi) {
    std::vector<C> v;
    unsigned nc = lo + r.below(hi - lo + 1);
    bool bad = r.coin(1, 16);
    for (unsigned i = 0; i < nc; i++) v.push_back(around(r, p, n, bad && r.coin(1, 3) ? -r.range(1, 3) : r.range(0, 6)));
    return v;
  };
  std::vector<C> x0 = val(n, 3 * n);
  std::vector<std::vector<C>> ys;
  unsigned steps = 2 + r.below(6);
  for (unsigned i = 0; i < steps; i++) {
    if (r.coin()) p[r.below(n)] += r.range(-2, 2);
    ys.push_back(val(n - 1, 3 * n));
  }
  return finish(r, n, x0, ys, r.coin(1, 12) ? 1000 : 1);
}

std::string gen(Rng &r, const Args &) {
  unsigned k = r.below(20);
  if (k < 4) return gen_counters(r);
  if (k < 8) return gen_implicit(r);
  if (k < 13) return gen_onemove(r);
  if (k < 16) return gen_translate(r);
  return gen_random(r);
}

} // namespace

int main(int argc, char **argv) {
  crab::CrabEnableWarningMsg(false);
  return run_harness(argc, argv, gen, eval);
}
