// Small self-contained program text format for the transformation / liveness harness
// (components `xf` and `live`): integer variables v0..v{n-1}, blocks b0..b{k-1}.
//
//   PROG  ::= (prog <nvars> <entry> <exit|none> FD BLK*)
//   FD    ::= nofd | (fd (in v..) (out v..))
//   BLK   ::= (blk <label> (st STMT*) (succ <label>*) [(pred <label>*)])
//   STMT  ::= (assign x LIN) | (bin OP x A B) | (havoc x) | (assume CST) | (assert CST)
//           | (select x CST LIN LIN) | (unreachable)
//   OP    ::= add | sub | mul | sdiv          A, B ::= vK | integer
//   LIN   ::= (lin c (k vK)*)                 value c + sum k*vK   (terms sorted by K)
//   CST   ::= (le LIN) | (lt LIN) | (eq LIN) | (ne LIN)     meaning LIN <= 0, < 0, = 0, != 0
//
// `build` creates a real crab CFG (edges are added block by block in the order of the succ
// lists, so predecessor lists come out in that order); `dump` reads a crab CFG back into the
// same text (blocks sorted by label index, statements in order, succ / pred lists in the
// order the CFG enumerates them).
#pragma once
#include "common.hpp"
#include "crab_lang.hpp"
#include <algorithm>
#include <map>
#include <memory>
#include <sstream>

namespace tp {
using namespace vh;
using namespace crab::cfg_impl;
using crab::cfg::binary_operation_t;

inline std::string lab(unsigned b) { return "b" + std::to_string(b); }
inline unsigned unidx(const std::string &l) { return (unsigned)std::stoul(l.substr(1)); }

struct Ctx {
  variable_factory_t vfac;
  std::vector<z_var> vars;
  explicit Ctx(unsigned nv) {
    for (unsigned i = 0; i < nv; i++) vars.emplace_back(vfac["v" + std::to_string(i)], crab::INT_TYPE, 32);
  }
  const z_var &var(const Sx &x) const { return vars.at(unidx(x.a)); }
};

inline z_lin_exp_t parse_lin(const Ctx &c, const Sx &x) {
  z_lin_exp_t e(z_number(x[1].a));
  for (size_t i = 2; i < x.size(); i++) e = e + z_lin_exp_t(z_number(x[i][0].a), c.var(x[i][1]));
  return e;
}

inline z_lin_cst_t parse_cst(const Ctx &c, const Sx &x) {
  z_lin_exp_t e = parse_lin(c, x[1]);
  const std::string &k = x[0].a;
  if (k == "le") return z_lin_cst_t(e, z_lin_cst_t::INEQUALITY);
  if (k == "lt") return z_lin_cst_t(e, z_lin_cst_t::STRICT_INEQUALITY);
  if (k == "eq") return z_lin_cst_t(e, z_lin_cst_t::EQUALITY);
  return z_lin_cst_t(e, z_lin_cst_t::DISEQUATION);
}

inline bool is_var_atom(const Sx &x) { return x.is_atom && !x.a.empty() && x.a[0] == 'v'; }

inline void add_stmt(const Ctx &c, z_basic_block_t &b, const Sx &s) {
  const std::string &k = s[0].a;
  if (k == "assign") b.assign(c.var(s[1]), parse_lin(c, s[2]));
  else if (k == "havoc") b.havoc(c.var(s[1]));
  else if (k == "assume") b.assume(parse_cst(c, s[1]));
  else if (k == "assert") b.assertion(parse_cst(c, s[1]));
  else if (k == "unreachable") b.unreachable();
  else if (k == "select") b.select(c.var(s[1]), parse_cst(c, s[2]), parse_lin(c, s[3]), parse_lin(c, s[4]));
  else if (k == "bin") {
    const std::string &op = s[1].a;
    const z_var &x = c.var(s[2]);
    const z_var &y = c.var(s[3]); // the block API wants a variable on the left
    if (is_var_atom(s[4])) {
      const z_var &z = c.var(s[4]);
      if (op == "add") b.add(x, y, z); else if (op == "sub") b.sub(x, y, z);
      else if (op == "mul") b.mul(x, y, z); else b.div(x, y, z);
    } else {
      z_number z(s[4].a);
      if (op == "add") b.add(x, y, z); else if (op == "sub") b.sub(x, y, z);
      else if (op == "mul") b.mul(x, y, z); else b.div(x, y, z);
    }
  }
}

struct Built {
  std::unique_ptr<Ctx> ctx;
  std::unique_ptr<z_cfg_t> cfg;
  unsigned nv = 0;
};

// (prog nv entry exit FD BLK*)
inline Built build(const Sx &p) {
  Built B;
  B.nv = (unsigned)std::stoul(p[1].a);
  B.ctx.reset(new Ctx(B.nv));
  const std::string entry = p[2].a, exit = p[3].a;
  if (exit == "none") B.cfg.reset(new z_cfg_t(entry));
  else B.cfg.reset(new z_cfg_t(entry, exit));
  const Sx &fd = p[4];
  if (!fd.is_atom) {
    std::vector<z_var> ins, outs;
    for (size_t i = 1; i < fd[1].size(); i++) ins.push_back(B.ctx->var(fd[1][i]));
    for (size_t i = 1; i < fd[2].size(); i++) outs.push_back(B.ctx->var(fd[2][i]));
    B.cfg->set_func_decl(z_cfg_t::fdecl_t("f", ins, outs));
  }
  for (size_t i = 5; i < p.size(); i++) B.cfg->insert(p[i][1].a);
  for (size_t i = 5; i < p.size(); i++) {
    z_basic_block_t &b = B.cfg->get_node(p[i][1].a);
    const Sx &st = p[i][2];
    for (size_t j = 1; j < st.size(); j++) add_stmt(*B.ctx, b, st[j]);
  }
  for (size_t i = 5; i < p.size(); i++) {
    z_basic_block_t &b = B.cfg->get_node(p[i][1].a);
    const Sx &sc = p[i][3];
    for (size_t j = 1; j < sc.size(); j++) b >> B.cfg->get_node(sc[j].a);
  }
  return B;
}

inline std::string vname(const z_var &v) { return v.name().str(); }

inline std::string dump_lin(const z_lin_exp_t &e) {
  std::vector<std::pair<unsigned, std::string>> ts;
  for (auto it = e.begin(); it != e.end(); ++it) {
    auto t = *it; // (coefficient, variable)
    ts.push_back({unidx(vname(t.second)), zs(t.first)});
  }
  std::sort(ts.begin(), ts.end());
  std::string r = "(lin " + zs(e.constant());
  for (auto &t : ts) r += " (" + t.second + " v" + std::to_string(t.first) + ")";
  return r + ")";
}

inline std::string dump_cst(const z_lin_cst_t &c) {
  const char *k = c.is_inequality() ? "le" : c.is_strict_inequality() ? "lt" : c.is_equality() ? "eq" : "ne";
  return std::string("(") + k + " " + dump_lin(c.expression()) + ")";
}

inline std::string dump_operand(const z_lin_exp_t &e) {
  if (e.is_constant()) return zs(e.constant());
  auto v = e.get_variable();
  if (v) return vname(*v);
  return "?" + dump_lin(e);
}

template <class Stmt> inline std::string dump_stmt(const Stmt &s) {
  using namespace crab::cfg;
  using L = basic_block_label_t;
  using N = ikos::z_number;
  using V = varname_t;
  if (s.is_assign()) {
    auto &a = static_cast<const assignment<L, N, V> &>(s);
    return "(assign " + vname(a.lhs()) + " " + dump_lin(a.rhs()) + ")";
  }
  if (s.is_bin_op()) {
    auto &a = static_cast<const binary_op<L, N, V> &>(s);
    const char *op = "?";
    switch (a.op()) {
    case BINOP_ADD: op = "add"; break;
    case BINOP_SUB: op = "sub"; break;
    case BINOP_MUL: op = "mul"; break;
    case BINOP_SDIV: op = "sdiv"; break;
    default: break;
    }
    return std::string("(bin ") + op + " " + vname(a.lhs()) + " " + dump_operand(a.left()) + " " + dump_operand(a.right()) + ")";
  }
  if (s.is_havoc()) return "(havoc " + vname(static_cast<const havoc_stmt<L, N, V> &>(s).get_variable()) + ")";
  if (s.is_assume()) return "(assume " + dump_cst(static_cast<const assume_stmt<L, N, V> &>(s).constraint()) + ")";
  if (s.is_assert()) return "(assert " + dump_cst(static_cast<const assert_stmt<L, N, V> &>(s).constraint()) + ")";
  if (s.is_unreachable()) return "(unreachable)";
  if (s.is_select()) {
    auto &a = static_cast<const select_stmt<L, N, V> &>(s);
    return "(select " + vname(a.lhs()) + " " + dump_cst(a.cond()) + " " + dump_lin(a.left()) + " " + dump_lin(a.right()) + ")";
  }
  return "(other)";
}

inline std::string dump(const z_cfg_t &cfg, unsigned nv) {
  std::ostringstream o;
  o << "(prog " << nv << " " << cfg.entry() << " " << (cfg.has_exit() ? cfg.exit() : std::string("none")) << " ";
  if (cfg.has_func_decl()) {
    auto &fd = cfg.get_func_decl();
    o << "(fd (in";
    for (unsigned i = 0; i < fd.get_num_inputs(); i++) o << " " << vname(fd.get_input_name(i));
    o << ") (out";
    for (unsigned i = 0; i < fd.get_num_outputs(); i++) o << " " << vname(fd.get_output_name(i));
    o << "))";
  } else
    o << "nofd";
  std::vector<std::pair<unsigned, std::string>> labs;
  for (auto it = cfg.label_begin(); it != cfg.label_end(); ++it) labs.push_back({unidx(*it), *it});
  std::sort(labs.begin(), labs.end());
  for (auto &l : labs) {
    const z_basic_block_t &b = cfg.get_node(l.second);
    o << " (blk " << l.second << " (st";
    for (auto const &s : b) o << " " << dump_stmt(s);
    o << ") (succ";
    for (auto const &t : boost::make_iterator_range(b.next_blocks())) o << " " << t;
    o << ") (pred";
    for (auto const &t : boost::make_iterator_range(b.prev_blocks())) o << " " << t;
    o << "))";
  }
  o << ")";
  return o.str();
}

} // namespace tp
